"""Runs a chunk of cases of one property in a fresh process against the repository working tree.

usage: python -m vlib.worker <prop> <chunk.json> <out.jsonl>
cwd is a scratch directory (Utils.py opens 'log_sg' in the cwd on import).
"""
import faulthandler
import importlib
import json
import os
import sys
import time
import traceback
import warnings


def setup_paths():
    from vlib.common import VERIF_DIR, repo_dir
    repo = repo_dir()
    # repository working tree first, third-party contract libraries last
    sys.path[:] = [p for p in sys.path if os.path.abspath(p or ".") != repo]
    sys.path.insert(0, repo)
    deps = os.path.join(VERIF_DIR, ".deps")
    if deps not in sys.path:
        sys.path.append(deps)
    return repo


def import_repo(repo):
    import sparseSpACE
    f = os.path.abspath(sparseSpACE.__file__)
    if not f.startswith(repo + os.sep):
        raise RuntimeError("sparseSpACE imported from %s, expected under %s" % (f, repo))


def classify_crash(tb_list, repo):
    """Return (is_repo_crash, function) — True if the innermost repo/harness frame is a repository frame."""
    from vlib.common import VERIF_DIR
    inner = None
    for fr in tb_list:
        fn = os.path.abspath(fr.filename)
        if fn.startswith(repo + os.sep):
            inner = ("repo", fr)
        elif fn.startswith(VERIF_DIR + os.sep):
            inner = ("harness", fr)
    if inner is None:
        return False, "?"
    kind, fr = inner
    return kind == "repo", "%s:%s" % (os.path.basename(fr.filename), fr.name)


def start_reach(repo):
    """Reach evidence: every source line of the repository package executed by this worker (sys.monitoring LINE events,
    each location disabled after its first hit, so the cost is one callback per line)."""
    mon = getattr(sys, "monitoring", None)
    if mon is None or os.environ.get("VERIF_REACH", "1") == "0":
        return None
    prefix = os.path.join(repo, "sparseSpACE") + os.sep
    hits = set()
    try:
        tool = mon.COVERAGE_ID
        mon.use_tool_id(tool, "verif-reach")

        def on_line(code, line):
            fn = code.co_filename
            if fn.startswith(prefix):
                hits.add((fn[len(prefix):], line))
            return mon.DISABLE

        mon.register_callback(tool, mon.events.LINE, on_line)
        mon.set_events(tool, mon.events.LINE)
    except Exception:
        return None
    return hits


def dump_reach(hits, out_path):
    if hits is None:
        return
    per = {}
    for f, ln in hits:
        per.setdefault(f, []).append(ln)
    with open(out_path + ".reach", "w") as fh:
        json.dump({f: sorted(v) for f, v in per.items()}, fh)


def main():
    prop, chunk_path, out_path = sys.argv[1:4]
    faulthandler.enable()
    repo = setup_paths()
    reach = start_reach(repo)
    os.environ.setdefault("SPARSESPACE_VERIF", "1")
    warnings.simplefilter("ignore")
    import numpy as np
    np.seterr(all="ignore")
    import_repo(repo)
    from vlib.common import Result
    mod = importlib.import_module("props." + prop.lower())
    with open(chunk_path) as fh:
        cases = json.load(fh)
    import random
    with open(out_path, "w") as out:
        for case in cases:
            t0 = time.time()
            random.seed(case["seed"])
            np.random.seed(case["seed"] % (2 ** 32))
            res = Result(case)
            try:
                mod.run_case(case, res)
            except BaseException as ex:  # noqa
                if isinstance(ex, KeyboardInterrupt):
                    raise
                tbl = traceback.extract_tb(ex.__traceback__)
                is_repo, where = classify_crash(tbl, repo)
                tb = traceback.format_exc()
                if is_repo:
                    sigf = getattr(mod, "crash_sig", None)
                    sig = None
                    if sigf is not None:
                        try:
                            sig = sigf(case, ex, where, tb)
                        except Exception:
                            sig = None
                    if sig is None:
                        sig = "crash:%s@%s" % (type(ex).__name__, where)
                    res.count("crash_monitor")
                    res.violate(sig, "uncaught %s in repository code at %s: %s" % (type(ex).__name__, where, str(ex)[:300]),
                                {"traceback": tb[-3000:]})
                else:
                    d = res.to_dict()
                    d["harness_error"] = tb[-4000:]
                    d["wall"] = time.time() - t0
                    out.write(json.dumps(d) + "\n")
                    out.flush()
                    continue
            d = res.to_dict()
            d["wall"] = time.time() - t0
            out.write(json.dumps(d) + "\n")
            out.flush()
            dump_reach(reach, out_path)


if __name__ == "__main__":
    main()
