"""Reference model for sparse-grid density estimation / regression with hat bases (no repository imports)."""
import itertools

import numpy as np

from vlib import refmodels as rm


def hat_values_1d(x_all, t):
    """matrix H[s, i] = value of interior hat i (zero boundary) of the sorted points x_all at samples t"""
    x = np.asarray(x_all, dtype=float)
    t = np.asarray(t, dtype=float)
    n = len(x) - 2
    H = np.zeros((len(t), n))
    for i in range(1, n + 1):
        H[:, i - 1] = rm.hat_nonuniform(x, i, t)
    return H


def hat_matrix(xs, data):
    """A[s, I] = prod_k hat_{i_k}(data[s,k]); multi-index I in C order (first dimension slowest)"""
    data = np.asarray(data, dtype=float).reshape(len(data), -1)
    d = len(xs)
    Hs = [hat_values_1d(xs[k], data[:, k]) for k in range(d)]
    A = Hs[0]
    for k in range(1, d):
        A = (A[:, :, None] * Hs[k][:, None, :]).reshape(len(data), -1)
    return A


def gram(xs):
    return rm.kron_all([rm.gram_mass_1d(x, boundary=False) for x in xs])


def weights(xs):
    w = np.array([1.0])
    for x in xs:
        w = np.kron(w, rm.trapezoid_weights_zero_boundary(x))
    return w


def uniform_stripes(levelvec):
    return [list(np.linspace(0.0, 1.0, 2 ** int(l) + 1)) for l in levelvec]


def normalise(alpha, w, labelled, weighted=True):
    """the documented post-processing: mean shift when labels are given, then scale so that the (weighted) mean of the
    positive parts is one (if non-zero)"""
    alpha = np.array(alpha, dtype=float)
    if weighted:
        mean = lambda v: float(np.inner(v, w) / np.sum(w))
    else:
        mean = lambda v: float(np.sum(v) / len(v))
    if labelled:
        alpha = alpha - mean(alpha)
    m = mean(np.clip(alpha, 0.0, None))
    if m != 0.0:
        alpha = alpha / m
    return alpha


def interpolate(xs, alpha, points):
    return hat_matrix(xs, points) @ np.asarray(alpha, dtype=float)
