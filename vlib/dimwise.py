"""Engine for hostile dimension-wise refinement histories (shared by C03, C04, C06, C13, ...)."""
import itertools

import numpy as np

from vlib import hooks
from vlib import refmodels as rm
from vlib.common import digest

VERSIONS = [6, 6, 2, 3, 7, 8]
LEVELS = [(1, 2), (1, 2), (1, 3), (2, 3), (2, 3), (1, 4), (2, 4)]


def gen_config(rng, tier, dims=(1, 2, 2, 2, 3, 3, 4), max_steps=None, box_kinds=None):
    d = rng.choice(dims)
    lmin, lmax = rng.choice(LEVELS)
    if d <= 2 and rng.random() < 0.08:
        lmin, lmax = rng.choice([(2, 5), (3, 4), (3, 5), (1, 5)])      # high start levels / large level differences
    if d == 4 and lmax > 3:
        lmin, lmax = rng.choice([(1, 2), (2, 3), (1, 3)])
    if d == 3 and lmax > 3 and rng.random() < 0.5:
        lmin, lmax = 2, 3
    kind, a, b = hooks.gen_box(rng, d, box_kinds or ["unit", "unit", "shifted", "negative", "aniso", "tiny", "huge", "dyadic", "integer", "integer", "mixed_scales"])
    steps_cap = max_steps or (14 if tier == "quick" else 40)
    if d >= 3:
        steps_cap = min(steps_cap, 8 if tier == "quick" else 14)
    if d == 4:
        steps_cap = min(steps_cap, 5 if tier == "quick" else 8)
    cfg = {
        "d": d, "lmin": lmin, "lmax": lmax, "a": a, "b": b, "box": kind,
        "version": rng.choice(VERSIONS),
        "rebalancing": rng.random() < 0.6,
        "safety": rng.choice([0.0, 0.1, 0.1, 0.3]),
        "boundary": rng.random() < 0.6,
        "margin": rng.choice([0.3, 0.5, 0.9, 0.9, 1.0, 0.0, None]),
        "profile": rng.choice(hooks.ERR_PROFILES),
        "steps": rng.randint(1, steps_cap),
        "errseed": rng.randrange(2 ** 31),
    }
    cfg["recalc"] = rng.choice([None, None, None, 1, 3, 10])   # recalculate_frequently with this many refinements per restart
    # how the caller hands over the domain: float arrays (default), lists / tuples, python ints or integer arrays on whole-number boxes
    cfg["errscale"] = rng.choice([1.0, 1.0, 1.0, 1.0, 1.0, 1e-9, 1e-12, 1e9])     # magnitude of the error / benefit values
    cfg["input_mode"] = rng.choice(hooks.INPUT_MODES) if (kind == "integer" or rng.random() < 0.1) else "float_array"
    if cfg["profile"] in ("equal", "zeros") and d >= 3:
        cfg["steps"] = min(cfg["steps"], 3)
    if cfg["profile"] in ("equal", "zeros"):
        cfg["steps"] = min(cfg["steps"], 6)
    return cfg


def build(cfg, f, observer, modified_basis=False, operation=None, grid=None):
    """Instantiate the real strategy (observed subclass) for cfg with integrand f."""
    from sparseSpACE.spatiallyAdaptiveSingleDimension2 import SpatiallyAdaptiveSingleDimensions2
    from sparseSpACE.Grid import GlobalTrapezoidalGrid
    from sparseSpACE.GridOperation import Integration
    from sparseSpACE.Utils import log_levels, print_levels
    a, b = hooks.typed(cfg["a"], cfg.get("input_mode", "float_array")), hooks.typed(cfg["b"], cfg.get("input_mode", "float_array"))
    if grid is None:
        grid = GlobalTrapezoidalGrid(a=a, b=b, boundary=cfg["boundary"], modified_basis=modified_basis)
    if operation is None:
        operation = Integration(f=f, grid=grid, dim=cfg["d"], reference_solution=cfg.get("reference"),
                                print_level=100, log_level=100)
    cls = hooks.observed(SpatiallyAdaptiveSingleDimensions2)
    c = cls(a, b, operation=operation, version=cfg["version"], margin=cfg["margin"],
            rebalancing=cfg["rebalancing"], rebalancing_safety_factor=cfg["safety"], norm=cfg.get("norm", np.inf),
            log_level=100, print_level=100)
    c.vobs = observer
    c.verif_recalc = cfg.get("recalc")
    return c


def run(c, cfg, err, **kw):
    args = dict(lmin=cfg["lmin"], lmax=cfg["lmax"], errorOperator=err, tol=-1.0, do_plot=False, print_output=False,
                max_evaluations=10 ** 9)
    args.update(kw)
    return hooks.run_adaptive(c, **args)


def maybe_prior_run(rng, c, cfg, err, res, prob=0.15):
    """The same strategy object already served an earlier, unobserved run from scratch (other start levels / few steps)."""
    if rng.random() >= prob:
        return False
    saved = c.vobs
    c.vobs = hooks.Observer(10 ** 6)      # counts nothing that is judged; only its depth cap is wanted (float resolution on tiny boxes)
    lmin0 = rng.choice([1, cfg["lmin"]])
    lmax0 = lmin0 + rng.choice([1, 2])
    try:
        hooks.run_adaptive(c, lmin=lmin0, lmax=lmax0, errorOperator=err, tol=-1.0, do_plot=False, print_output=False,
                           max_evaluations=rng.choice([1, 30, 80]))
    finally:
        c.vobs = saved
    cfg["prior_run_on_same_object"] = [lmin0, lmax0]
    res.count("prior_runs_on_same_object")
    return True


def maybe_restart(rng, c, cfg, err, obs, res, prob=0.2):
    """The documented way to go on from an existing refinement: a second performSpatiallyAdaptiv with the ORIGINAL start
    levels and refinement_container=<current refinement>; the observer keeps watching the continued history."""
    if getattr(obs, "steps", 0) < 1 or rng.random() >= prob:
        return False
    obs.max_steps = obs.steps + rng.randint(1, 3)
    cfg["restarted_with_refinement_container"] = True
    res.count("restarts_with_refinement_container")
    run(c, cfg, err, refinement_container=c.refinement)
    return True


# ---- state readers --------------------------------------------------------------------------------
def intervals(c, k):
    return [(o.start, o.end, tuple(o.levels), o.coarsening_level, o.benefit, id(o))
            for o in c.refinement.get_refinement_container_for_dim(k).get_objects()]


def structure_digest(c):
    return digest([[(o.start, o.end, list(o.levels)) for o in c.refinement.get_refinement_container_for_dim(k).get_objects()]
                   for k in range(c.dim)])


def scheme_map(c):
    return {tuple(int(x) for x in g.levelvector): g.coefficient for g in c.scheme}


# ---- C03 monitor ------------------------------------------------------------------------------------
def check_nested_combination(res, c, where, f=None, hash_component=0):
    """One evaluation of the C03 oracle on the live strategy object. Returns the union point dictionary."""
    d = c.dim
    a, b = [float(x) for x in c.a], [float(x) for x in c.b]
    boundary = c.grid.boundary
    sm = scheme_map(c)
    index_set = set(c.combischeme.get_index_set()) if c.combischeme.initialized_adaptive else set(sm)
    lists = {}  # (k, l_k) -> tuple of coordinates
    ok_lists = True
    per_level = {}
    for lv in sorted(index_set | set(sm)):
        coords, levels, _ = c.get_point_coord_for_each_dim(list(lv))
        per_level[lv] = [tuple(float(x) for x in cs) for cs in coords]
        for k in range(d):
            cs = per_level[lv][k]
            good = (len(cs) >= 2 and cs[0] == a[k] and cs[-1] == b[k] and all(cs[i] < cs[i + 1] for i in range(len(cs) - 1)))
            res.check("sorted_with_endpoints", good, "dimwise_1d_list_not_sorted_or_missing_endpoints",
                      "%s: 1-D point list of grid %s dim %d is not strictly ascending from a to b" % (where, lv, k),
                      {"list": cs[:40], "a": a[k], "b": b[k], "levelvec": lv})
            res.check("levels_match_points", len(levels[k]) == len(cs), "dimwise_levels_length",
                      "%s: level list length differs from point list for grid %s dim %d" % (where, lv, k))
            key = (k, lv[k])
            if key in lists:
                same = lists[key][0] == cs
                res.check("depends_only_on_level", same, "dimwise_list_depends_on_other_dims",
                          "%s: 1-D points of dim %d level %d differ between grids %s and %s" % (where, k, lv[k], lists[key][1], lv),
                          {"first": lists[key][0][:40], "second": cs[:40]})
                ok_lists &= same
            else:
                lists[key] = (cs, lv)
    # monotone nesting in the level
    for k in range(d):
        lvls = sorted(l for (kk, l) in lists if kk == k)
        for l1, l2 in zip(lvls, lvls[1:]):
            s1, s2 = set(lists[(k, l1)][0]), set(lists[(k, l2)][0])
            res.check("nested_in_level", s1 <= s2, "dimwise_not_nested",
                      "%s: dim %d level %d points are not a subset of level %d points" % (where, k, l1, l2),
                      {"missing": sorted(s1 - s2)[:10]})
    # point sets of the component grids and coefficient sums
    total = {}
    for lv, coef in sm.items():
        cs = per_level[lv]
        axes = [c_[1:-1] if not boundary else c_ for c_ in cs]
        pts = c.get_points_component_grid(list(lv))
        pset = set(tuple(float(x) for x in p) for p in pts)
        exp = set(itertools.product(*axes))
        res.check("component_points_are_tensor_product", pset == exp and len(pts) == len(pset),
                  "dimwise_component_points_not_tensor",
                  "%s: get_points_component_grid(%s) is not the tensor product of its 1-D lists" % (where, lv),
                  {"extra": sorted(pset - exp)[:5], "missing": sorted(exp - pset)[:5], "n": len(pts)})
        for p in exp:
            total[p] = total.get(p, 0) + coef
    bad = [(p, v) for p, v in total.items() if v != 1]
    res.check("coefficient_sum_per_point", not bad, "dimwise_point_coefficient_sum",
              "%s: %d of %d union points have component coefficients not summing to 1" % (where, len(bad), len(total)),
              {"examples": bad[:5], "scheme": sorted(sm.items())})
    return total


def check_interpolation(res, c, points, f, where, tol_rel=1e-11, comps=None):
    """combined interpolant == f at all given points"""
    if not points:
        return
    pts = sorted(points)
    if len(pts) >= 2 and (hash(pts[0]) + len(pts)) % 2 == 0:
        # an evaluation list may contain a point several times (deterministic choice: no generator state is consumed)
        pts = pts + [pts[(7 * i) % len(pts)] for i in range(1 + len(pts) % 5)]
        res.count("evaluation_list_with_repeated_points")
    vals = np.asarray(c(pts))
    exp = np.array([f.eval(p) for p in pts])
    if comps is not None:
        vals, exp = vals[:, comps], exp[:, comps]
    nsch = sum(abs(g.coefficient) for g in c.scheme)
    scale = max(getattr(f, "magnitude", 1.0), float(np.max(np.abs(exp)))) * nsch
    res.close("nodal_reproduction", vals, exp, tol_rel * scale, "dimwise_interpolant_not_nodal",
              "%s: combined interpolant differs from the function at points of the combined grid" % where,
              {"n_points": len(pts)})


# ---- C06 monitor -------------------------------------------------------------------------------------
def check_structure(res, c, where):
    d = c.dim
    for k in range(d):
        cont = c.refinement.get_refinement_container_for_dim(k)
        objs = cont.get_objects()
        iv = [(float(o.start), float(o.end)) for o in objs]
        lv = [tuple(o.levels) for o in objs]
        ok = (iv[0][0] == float(c.a[k]) and iv[-1][1] == float(c.b[k]) and all(s < e for s, e in iv)
              and all(iv[i][1] == iv[i + 1][0] for i in range(len(iv) - 1)))
        res.check("tiling", ok, "dimwise_intervals_do_not_tile",
                  "%s: intervals of dim %d do not tile [a,b] in ascending order" % (where, k), {"intervals": iv[:40]})
        res.check("shared_point_levels", all(lv[i][1] == lv[i + 1][0] for i in range(len(lv) - 1)),
                  "dimwise_adjacent_levels_disagree", "%s: adjacent intervals of dim %d disagree on the shared level" % (where, k),
                  {"levels": lv[:40]})
        plevels = [lv[0][0]] + [x[1] for x in lv]
        good, why = rm.is_valid_refinement_tree(plevels)
        res.check("binary_tree_rule", good, "dimwise_tree_rule:" + (str(why[0]) if why else ""),
                  "%s: levels of dim %d are not a binary refinement tree: %s" % (where, k, why), {"levels": plevels[:60]})
        lm = c.lmax[k]
        cz = [o.coarsening_level for o in objs]
        res.check("coarsening_identity", all(cz[i] == lm - max(lv[i]) and cz[i] >= 0 for i in range(len(objs))),
                  "dimwise_coarsening_level", "%s: coarsening level != lmax - max(level) or negative in dim %d" % (where, k),
                  {"lmax": lm, "coarsening": cz[:40], "levels": lv[:40]})
        res.check("lmax_bounds_depth", lm >= max(plevels), "dimwise_lmax_below_depth",
                  "%s: lmax[%d]=%d below deepest level %d" % (where, k, lm, max(plevels)))
        res.check("container_cursors", cont.popArray == [] and cont.searchPosition == 0, "dimwise_container_cursor",
                  "%s: container cursors of dim %d not reset (popArray=%r searchPosition=%r)" % (where, k, cont.popArray, cont.searchPosition))
    res.check("container_cursors", c.refinement.curContainer == 0, "dimwise_meta_cursor",
              "%s: curContainer=%r at quiescent point" % (where, c.refinement.curContainer))


def snapshot_selection(c, configured_margin="unset"):
    # the margin the caller configured (None = documented default 0.9), not the value read back from the object
    margin = c.margin if configured_margin == "unset" else (0.9 if configured_margin is None else configured_margin)
    snap = {"benefit_max": c.benefit_max, "margin": margin, "dims": []}
    for k in range(c.dim):
        objs = c.refinement.get_refinement_container_for_dim(k).get_objects()
        snap["dims"].append([(float(o.start), float(o.end), o.benefit) for o in objs])
    return snap


def check_selection(res, c, snap, where):
    thr = snap["benefit_max"] * snap["margin"]
    nsel = 0
    for k in range(c.dim):
        before = snap["dims"][k]
        after = [(float(o.start), float(o.end)) for o in c.refinement.get_refinement_container_for_dim(k).get_objects()]
        aset = set(after)
        expected = {(s, e) for s, e, ben in before if ben >= thr}
        gone = {(s, e) for s, e, _ in before if (s, e) not in aset}
        nsel += len(expected)
        res.check("selection_rule", gone == expected, "dimwise_selection_differs_from_margin_rule",
                  "%s: dim %d split intervals %s but the margin rule selects %s" % (where, k, sorted(gone)[:6], sorted(expected)[:6]),
                  {"benefits": before[:40], "threshold": thr})
        # every removed parent replaced by exactly two children sharing an interior mid point; others unchanged
        starts = sorted(set(s for s, _ in after) | {after[-1][1]})
        old_pts = sorted(set(s for s, _, _ in before) | {before[-1][1]})
        new_pts = [p for p in starts if p not in set(old_pts)]
        okc = len(new_pts) == len(gone) and set(old_pts) <= set(starts)
        for (s, e) in gone:
            mids = [p for p in new_pts if s < p < e]
            okc &= len(mids) == 1 and (s, mids[0]) in aset and (mids[0], e) in aset if mids else False
        res.check("children_replace_parent", okc, "dimwise_children_wrong",
                  "%s: dim %d refined parents are not each replaced by two children sharing one interior point" % (where, k),
                  {"gone": sorted(gone)[:6], "new_points": new_pts[:6]})
    return nsel
