"""Independent reference models written from the mathematics.  No repository imports."""
import itertools
import math

import numpy as np


# ----------------------------------------------------------------------------------------------
# C01: inclusion-exclusion index sets
# ----------------------------------------------------------------------------------------------
def standard_index_set(d, lmin, lmax):
    """{ l >= lmin : |l|_1 <= lmax + (d-1) lmin }"""
    out = set()
    for l in itertools.product(range(lmin, lmax + 1), repeat=d):
        if sum(l) <= lmax + (d - 1) * lmin:
            out.add(tuple(l))
    return out


def standard_active_set(d, lmin, lmax):
    return {l for l in standard_index_set(d, lmin, lmax) if sum(l) == lmax + (d - 1) * lmin}


def index_set_problems(old, active, lmin, d):
    """Return list of (clause, detail) violated by the two index sets."""
    problems = []
    I = old | active
    if old & active:
        problems.append(("disjoint", sorted(old & active)[:3]))
    for l in I:
        if len(l) != d:
            problems.append(("dimension", l))
            continue
        if any(x < lmin for x in l):
            problems.append(("below_lmin", l))
        for k in range(d):
            if l[k] > lmin:
                b = l[:k] + (l[k] - 1,) + l[k + 1:]
                if b not in I:
                    problems.append(("downward_closed", (l, b)))
    for a in active:
        for k in range(len(a)):
            f = a[:k] + (a[k] + 1,) + a[k + 1:]
            if f in I:
                problems.append(("active_has_forward_neighbour", (a, f)))
    return problems


def coefficient_problems(I, scheme, lmin, d):
    """scheme: list of (levelvec tuple, coefficient).  Checks the dominating-sum characterisation on
    the whole box [lmin, max(I)+1]^d."""
    problems = []
    if not I:
        return [("empty_index_set", None)]
    levs = [tuple(int(x) for x in g) for g, _ in scheme]
    if len(set(levs)) != len(levs):
        problems.append(("duplicate_grid", None))
    for g, c in scheme:
        g = tuple(int(x) for x in g)
        if g not in I:
            problems.append(("grid_outside_index_set", g))
        if c == 0:
            problems.append(("zero_coefficient", g))
    hi = [max(l[k] for l in I) + 1 for k in range(d)]
    G = np.array(levs, dtype=int).reshape(len(levs), d)
    C = np.array([float(c) for _, c in scheme])
    axes = [np.arange(lmin, hi[k] + 1) for k in range(d)]
    box = np.array(list(itertools.product(*axes)), dtype=int).reshape(-1, d)
    # dominating sums, in blocks
    for s in range(0, len(box), 4096):
        B = box[s:s + 4096]
        dom = np.all(G[None, :, :] >= B[:, None, :], axis=2)  # (nb, ng)
        sums = dom @ C
        exp = np.array([1.0 if tuple(int(x) for x in b) in I else 0.0 for b in B])
        bad = np.nonzero(sums != exp)[0]
        for j in bad[:3]:
            problems.append(("dominating_sum", (tuple(int(x) for x in B[j]), float(sums[j]), float(exp[j]))))
        if len(problems) > 8:
            break
    if float(C.sum()) != 1.0:
        problems.append(("coefficient_sum", float(C.sum())))
    return problems


def incl_excl_coefficients(I, d):
    """Moebius form: c_g = sum_{z in {0,1}^d} (-1)^{|z|} [g+z in I]; non-zero entries only."""
    out = {}
    for g in I:
        c = 0
        for z in itertools.product((0, 1), repeat=d):
            if tuple(a + b for a, b in zip(g, z)) in I:
                c += (-1) ** sum(z)
        if c != 0:
            out[g] = c
    return out


class SchemeModel:
    """15-line sequential model of the adaptive scheme transition (Gerstner-Griebel admissibility)."""

    def __init__(self, d, lmin, lmax):
        self.d, self.lmin = d, lmin
        self.active = standard_active_set(d, lmin, lmax)
        self.old = standard_index_set(d, lmin, lmax) - self.active

    def update(self, l):
        l = tuple(l)
        if l not in self.active:
            return None
        self.active.remove(l)
        self.old.add(l)
        dims = []
        for k in range(self.d):
            f = l[:k] + (l[k] + 1,) + l[k + 1:]
            ok = True
            for j in range(self.d):
                b = f[:j] + (f[j] - 1,) + f[j + 1:]
                if b[j] >= self.lmin and b not in self.old:
                    ok = False
            if ok:
                self.active.add(f)
                dims.append(k)
        return dims


# ----------------------------------------------------------------------------------------------
# dyadic sparse grids (C02)
# ----------------------------------------------------------------------------------------------
def dyadic_component_indices(level, finest, boundary):
    """Indices (at resolution 2^finest) of the 1-D grid of given level."""
    step = 2 ** (finest - level)
    idx = list(range(0, 2 ** finest + 1, step))
    if not boundary:
        idx = idx[1:-1]
    return idx


def _flag(boundary, k):
    return boundary[k] if isinstance(boundary, (list, tuple)) else boundary


def sparse_grid_indices(index_set, finest, boundary):
    out = set()
    for l in index_set:
        axes = [dyadic_component_indices(lk, finest, _flag(boundary, k)) for k, lk in enumerate(l)]
        out.update(itertools.product(*axes))
    return out


def hat_1d(level, index, x, a=0.0, b=1.0):
    """Hierarchical/nodal hat of given level centred at a + index*(b-a)/2^level, support one mesh width each side."""
    h = (b - a) / 2 ** level
    c = a + index * h
    return np.maximum(0.0, 1.0 - np.abs(np.asarray(x, dtype=float) - c) / h)


def hat_1d_integral(level, index, a=0.0, b=1.0):
    h = (b - a) / 2 ** level
    if index == 0 or index == 2 ** level:
        return 0.5 * h
    return h


# ----------------------------------------------------------------------------------------------
# non-uniform 1-D piecewise linear tools (C09, C15, C16, C20)
# ----------------------------------------------------------------------------------------------
def trapezoid_weights(x):
    """Exact integrals of the nodal hat basis on the sorted points x (with end points)."""
    x = np.asarray(x, dtype=float)
    w = np.zeros(len(x))
    h = np.diff(x)
    w[:-1] += h / 2
    w[1:] += h / 2
    return w


def trapezoid_weights_zero_boundary(x_all):
    """x_all includes both end points; returns weights for interior points only (interpolant vanishes at the ends)."""
    return trapezoid_weights(x_all)[1:-1]


def trapezoid_weights_modified(x_all):
    """Interior points only; the interpolant is extended to the end points by linear extrapolation from the two
    nearest interior points (for a single interior point: constant)."""
    x = np.asarray(x_all, dtype=float)
    n = len(x) - 2
    if n <= 0:
        return np.zeros(0)
    if n == 1:
        return np.array([x[-1] - x[0]])
    xi = x[1:-1]
    w = trapezoid_weights(xi)  # interior part [x_1, x_n]
    # left extension on [a, x_1]: value(t) = f1 + (f1 - f2)/(x1-x2) (t - x1) ; integrate
    a, b = x[0], x[-1]
    h0 = xi[0] - a
    h1 = xi[1] - xi[0]
    # integral of f1*(1 + (x1 - t)/h1) - f2*(x1 - t)/h1 over [a,x1]
    w[0] += h0 + h0 * h0 / (2 * h1)
    w[1] -= h0 * h0 / (2 * h1)
    hn = b - xi[-1]
    hm = xi[-1] - xi[-2]
    w[-1] += hn + hn * hn / (2 * hm)
    w[-2] -= hn * hn / (2 * hm)
    return w


def hat_nonuniform(x_all, i, t):
    """Nodal hat of point i in sorted x_all (end points included) evaluated at t (array)."""
    x = np.asarray(x_all, dtype=float)
    t = np.asarray(t, dtype=float)
    out = np.zeros_like(t)
    if i > 0:
        m = (t >= x[i - 1]) & (t <= x[i])
        out[m] = (t[m] - x[i - 1]) / (x[i] - x[i - 1])
    if i < len(x) - 1:
        m = (t >= x[i]) & (t <= x[i + 1])
        out[m] = (x[i + 1] - t[m]) / (x[i + 1] - x[i])
    if i == 0:
        out[t == x[0]] = 1.0
    if i == len(x) - 1:
        out[t == x[-1]] = 1.0
    return out


def gram_mass_1d(x_all, boundary=False):
    """Mass matrix of nodal hats on x_all; boundary=False -> interior points only (zero boundary values)."""
    x = np.asarray(x_all, dtype=float)
    n = len(x)
    M = np.zeros((n, n))
    h = np.diff(x)
    for i in range(n - 1):
        M[i, i] += h[i] / 3
        M[i + 1, i + 1] += h[i] / 3
        M[i, i + 1] += h[i] / 6
        M[i + 1, i] += h[i] / 6
    return M if boundary else M[1:-1, 1:-1]


def gram_stiffness_1d(x_all, boundary=False):
    x = np.asarray(x_all, dtype=float)
    n = len(x)
    K = np.zeros((n, n))
    h = np.diff(x)
    for i in range(n - 1):
        K[i, i] += 1 / h[i]
        K[i + 1, i + 1] += 1 / h[i]
        K[i, i + 1] -= 1 / h[i]
        K[i + 1, i] -= 1 / h[i]
    return K if boundary else K[1:-1, 1:-1]


def kron_all(mats):
    out = np.array([[1.0]])
    for m in mats:
        out = np.kron(out, m)
    return out


def gradient_gram(xs, boundary=False):
    """sum_k K_k (x) prod_{j != k} M_j for per-dimension point lists xs; first dimension is the slowest index."""
    d = len(xs)
    Ms = [gram_mass_1d(x, boundary) for x in xs]
    Ks = [gram_stiffness_1d(x, boundary) for x in xs]
    total = None
    for k in range(d):
        mats = [Ks[j] if j == k else Ms[j] for j in range(d)]
        t = kron_all(mats)
        total = t if total is None else total + t
    return total


# ----------------------------------------------------------------------------------------------
# polynomials / quadrature references
# ----------------------------------------------------------------------------------------------
def legendre_shifted(n, x, a, b):
    """P_n mapped to [a,b]."""
    t = (2 * np.asarray(x, dtype=float) - (a + b)) / (b - a)
    return np.polynomial.legendre.legval(t, [0] * n + [1])


def legendre_shifted_integral(n, a, b):
    return (b - a) if n == 0 else 0.0


def gauss_legendre_box(f, start, end, n=48):
    """Tensor Gauss-Legendre reference integral of f(points (N,d)) -> (N,) or (N,k) over the box."""
    d = len(start)
    xs, ws = np.polynomial.legendre.leggauss(n)
    axes = []
    wts = []
    for k in range(d):
        a, b = start[k], end[k]
        axes.append((b - a) / 2 * xs + (a + b) / 2)
        wts.append((b - a) / 2 * ws)
    P = np.array(list(itertools.product(*axes)))
    W = np.array([math.prod(w) for w in itertools.product(*wts)])
    vals = np.asarray(f(P), dtype=float)
    return np.tensordot(W, vals, axes=(0, 0))


def is_valid_refinement_tree(levels):
    """Binary-tree rule on a level sequence (end points level 0): for every inner point of level L, of the
    nearest lower-level points to the left and right the larger level is exactly L-1."""
    n = len(levels)
    if n < 2 or levels[0] != 0 or levels[-1] != 0:
        return False, ("end_levels", levels[0], levels[-1])
    for i in range(1, n - 1):
        L = levels[i]
        if L < 1:
            return False, ("inner_level", i, L)
        j = i - 1
        while levels[j] >= L:
            j -= 1
            if j < 0:
                return False, ("no_left_parent", i)
        k = i + 1
        while levels[k] >= L:
            k += 1
            if k >= n:
                return False, ("no_right_parent", i)
        if max(levels[j], levels[k]) != L - 1:
            return False, ("parent_level", i, L, levels[j], levels[k])
    return True, None
