"""Harness-side instruments: arbitrary functions, hostile error estimators, observer subclasses.

Everything here is attached from outside (subclassing / public parameters); nothing needs a hook in /repo.
Repository imports are done lazily so that the parent process never imports sparseSpACE.
"""
import hashlib
import math
import random
import struct

import numpy as np


class StopHistory(Exception):
    """Raised by an observer to end a history at a quiescent point."""


def hash01(coords, salt=0):
    """Deterministic 'arbitrary function': value in [-1,1) from the bytes of the coordinates."""
    b = struct.pack("<q%dd" % len(coords), salt, *[float(c) + 0.0 for c in coords])
    h = hashlib.blake2b(b, digest_size=8).digest()
    return int.from_bytes(h, "big") / 2.0 ** 63 - 1.0


_FUNC_CLASSES = {}


def function_classes():
    """Create the harness Function subclasses once (needs the repository's Function base)."""
    if _FUNC_CLASSES:
        return _FUNC_CLASSES
    from sparseSpACE.Function import Function

    class VFunction(Function):
        """Vector valued function assembled from python callables point(tuple)->float.
        Counts distinct points that reach eval()."""

        def __init__(self, components, names=None, integer_valued=False):
            super().__init__()
            self.components = list(components)
            self.names = names
            self.integer_valued = integer_valued   # eval() hands out an integer-typed array (counts, labels, indicators)
            self.magnitude = 1.0                    # natural size of the values (tolerances of linear relations scale with it)
            self.eval_points = {}
            self.eval_calls = 0
            self.since_mark = None

        def output_length(self):
            return len(self.components)

        def mark(self):
            """start counting the distinct points that reach eval() from now on"""
            self.since_mark = set()

        def eval(self, coordinates):
            p = tuple(coordinates) if type(coordinates) is not tuple else coordinates
            self.eval_calls += 1
            if self.since_mark is not None:
                self.since_mark.add(tuple(float(c) for c in p))
            v = self.eval_points.get(p)
            if v is None:
                p = tuple(float(c) for c in p)
                if self.integer_valued:
                    v = np.array([int(g(p)) for g in self.components], dtype=np.int64)
                else:
                    v = np.array([float(g(p)) for g in self.components])
                self.eval_points[p] = v
            return v.copy()

    _FUNC_CLASSES["VFunction"] = VFunction
    return _FUNC_CLASSES


def VFunction(components, names=None, integer_valued=False):
    return function_classes()["VFunction"](components, names, integer_valued)


# ---- component builders (plain python callables) ---------------------------------------------
def comp_hash(salt=0):
    return lambda p: hash01(p, salt)


def comp_int_hash(salt=0):
    """arbitrary integer-valued function (labels / counts in -4..4)"""
    return lambda p: int(math.floor(hash01(p, salt) * 4.5 + 0.5))


def comp_smooth(seed, d):
    r = random.Random(seed)
    w = [r.uniform(0.5, 3.0) for _ in range(d)]
    ph = r.uniform(0, 1)
    return lambda p: math.cos(2 * math.pi * ph + sum(wi * x for wi, x in zip(w, p)))


def comp_peak(center, width):
    return lambda p: math.exp(-sum(((x - c) / width) ** 2 for x, c in zip(p, center)))


def comp_discont(center):
    return lambda p: (1.0 if all(x <= c for x, c in zip(p, center)) else 0.0)


def comp_multilinear(coefs_per_dim):
    """prod_k (alpha_k + beta_k x_k)"""
    return lambda p: math.prod(al + be * x for (al, be), x in zip(coefs_per_dim, p))


def multilinear_integral(coefs_per_dim, a, b):
    return math.prod(al * (bk - ak) + be * (bk * bk - ak * ak) / 2 for (al, be), ak, bk in zip(coefs_per_dim, a, b))


def comp_linear(c0, cs):
    return lambda p: c0 + sum(ci * x for ci, x in zip(cs, p))


def linear_integral(c0, cs, a, b):
    vol = math.prod(bk - ak for ak, bk in zip(a, b))
    return vol * (c0 + sum(ci * (ak + bk) / 2 for ci, ak, bk in zip(cs, a, b)))


def comp_hat_product(levels, indices, a, b):
    """prod_k hat of level l_k, index i_k on [a_k,b_k] (dyadic)."""
    hs = [(bk - ak) / 2 ** l for l, ak, bk in zip(levels, a, b)]
    cs = [ak + i * h for i, h, ak in zip(indices, hs, a)]

    def g(p):
        v = 1.0
        for x, c, h in zip(p, cs, hs):
            t = 1.0 - abs(x - c) / h
            if t <= 0:
                return 0.0
            v *= t
        return v
    return g


def hat_product_integral(levels, indices, a, b):
    v = 1.0
    for l, i, ak, bk in zip(levels, indices, a, b):
        h = (bk - ak) / 2 ** l
        v *= (0.5 * h) if (i == 0 or i == 2 ** l) else h
    return v


# ---- hostile error estimator ---------------------------------------------------------------------
_ERR_CLASSES = {}


def RandErr(seed, profile, dim, a=None, b=None, scale=1.0):
    """Seeded ErrorCalculator: the refinement decisions of the real refine() loop are driven by these values."""
    if "RandErr" not in _ERR_CLASSES:
        from sparseSpACE.ErrorCalculator import (ErrorCalculator, ErrorCalculatorSingleDimVolumeGuided,
                                                 ErrorCalculatorSingleDimVolumeGuidedPunishedDepth)

        class _RandErr(ErrorCalculator):
            def __init__(self, seed, profile, dim, a, b):
                super().__init__()
                self.rng = random.Random(seed)
                self.seed = seed
                self.profile = profile
                self.dim = dim
                self.step = 0
                self.calls = 0
                self.scale = 1.0
                self.a, self.b = a, b
                self.real = ErrorCalculatorSingleDimVolumeGuided()
                self.real_punished = ErrorCalculatorSingleDimVolumeGuidedPunishedDepth()
                r = random.Random(seed ^ 0x5bd1e995)
                self.hot = [r.random() for _ in range(dim)]
                self.hot_dims = [k for k in range(dim) if r.random() < 0.7] or [r.randrange(dim)]
                # "leaddim": one dimension (mostly a LATER one) runs ahead for a few steps, the others follow one after the other
                self.lead = dim - 1 if r.random() < 0.6 else r.randrange(dim)
                self.lead_steps = r.randint(2, 5)
                self.followers = [k for k in range(dim) if k != self.lead]
                r.shuffle(self.followers)
                self.follow_steps = r.randint(1, 3)

            def calc_error(self, refine_object, norm, volume_weights=None):
                # every selection rule is homogeneous in the error values: the same history at another magnitude (1e-12 .. 1e9)
                return self.scale * self._value(refine_object, norm, volume_weights)

            def _value(self, refine_object, norm, volume_weights=None):
                self.calls += 1
                p = self.profile
                rng = self.rng
                if p == "uniform":
                    return rng.random()
                if p == "sparse":
                    return rng.random() if rng.random() < 0.15 else 0.0
                if p == "ties":
                    return rng.choice([0.0, 0.5, 1.0, 1.0])
                if p == "equal":
                    return 1.0
                if p == "zeros":
                    return 0.0 if self.step % 3 != 2 else rng.random()
                if p == "single":
                    # one winner per evaluation: strictly increasing tiny perturbation on a random base
                    return rng.random() ** 8
                if p == "altdim":
                    k = getattr(refine_object, "this_dim", 0)
                    return rng.random() if k == self.step % self.dim else 0.0
                if p == "leaddim":
                    k = getattr(refine_object, "this_dim", None)
                    if k is None:
                        return rng.random()
                    st = self.step
                    if st < self.lead_steps:
                        active = self.lead
                    elif self.followers and st < self.lead_steps + self.follow_steps * len(self.followers):
                        active = self.followers[(st - self.lead_steps) // self.follow_steps]
                    else:
                        return rng.random()
                    if k != active:
                        return 0.0
                    # a steep front in the active dimension: its deepest interval is refined in every step (its maximum level grows)
                    t = self.a[k] + self.hot[k] * (self.b[k] - self.a[k])
                    lo, hi = refine_object.start, refine_object.end
                    dist = 0.0 if lo <= t <= hi else min(abs(t - lo), abs(t - hi)) / (self.b[k] - self.a[k])
                    return 1.0 / (1e-3 + dist)
                if p in ("hotspot", "fronts"):
                    k = getattr(refine_object, "this_dim", None)
                    if k is None:  # box shaped objects
                        s = 0.0
                        for j in range(self.dim):
                            lo, hi = refine_object.start[j], refine_object.end[j]
                            t = self.a[j] + self.hot[j] * (self.b[j] - self.a[j])
                            s += 0.0 if lo <= t <= hi else min(abs(t - lo), abs(t - hi)) / (self.b[j] - self.a[j])
                        return 1.0 / (1e-3 + s)
                    if p == "hotspot" and k not in self.hot_dims:
                        return 0.0     # "fronts": every dimension has its own steep front -> deep local refinement in all of them
                    t = self.a[k] + self.hot[k] * (self.b[k] - self.a[k])
                    lo, hi = refine_object.start, refine_object.end
                    dist = 0.0 if lo <= t <= hi else min(abs(t - lo), abs(t - hi)) / (self.b[k] - self.a[k])
                    return 1.0 / (1e-3 + dist)
                if p == "geomhash":
                    # stateless: a deterministic function of the object's geometry (same value when re-evaluated)
                    k = getattr(refine_object, "this_dim", None)
                    if k is None:
                        key = tuple(float(x) for x in refine_object.start) + tuple(float(x) for x in refine_object.end)
                    else:
                        key = (float(k), float(refine_object.start), float(refine_object.end))
                    v = 0.5 * (hash01(key, self.seed) + 1.0)
                    return v if v > 0.35 else 0.0
                if p == "real":
                    if getattr(refine_object, "volume", None) is None:
                        return 0.0
                    return self.real.calc_error(refine_object, norm, volume_weights=volume_weights)
                if p == "real_punished":   # the library's depth-punishing variant of the volume-guided estimator
                    if getattr(refine_object, "volume", None) is None:
                        return 0.0
                    return self.real_punished.calc_error(refine_object, norm)
                raise ValueError(p)

        _ERR_CLASSES["RandErr"] = _RandErr
    e = _ERR_CLASSES["RandErr"](seed, profile, dim, a, b)
    e.scale = scale
    return e


ERR_PROFILES = ["uniform", "sparse", "ties", "equal", "zeros", "single", "altdim", "hotspot", "real", "leaddim"]


# ---- observers ---------------------------------------------------------------------------------------
_OBS_CLASSES = {}


def observed(base):
    """Subclass of a strategy class that calls an observer object at the quiescent points of the adaptive loop."""
    if base in _OBS_CLASSES:
        return _OBS_CLASSES[base]

    class Observed(base):
        vobs = None

        def refine(self):
            o = self.vobs
            if o is not None:
                o.before_refine(self)
            super().refine()
            if o is not None:
                o.after_refine(self)

        def performSpatiallyAdaptiv(self, *a, **kw):
            # documented option "recalculate_frequently" (restart the computation from scratch every N refinements): switched on
            # for the configurations that ask for it, with the public threshold attribute lowered so that short histories reach it
            n = getattr(self, "verif_recalc", None)
            if n and "recalculate_frequently" not in kw and len(a) < 7:
                kw["recalculate_frequently"] = True
                self.refinements_for_recalculate = n
            return super().performSpatiallyAdaptiv(*a, **kw)

        def evaluate_operation(self):
            if self.vobs is not None:
                self.vobs.before_evaluate(self)
            r = super().evaluate_operation()
            if self.vobs is not None:
                self.vobs.after_evaluate(self, r)
            return r

    if hasattr(base, "rebalance"):
        def rebalance(self, d):
            o = self.vobs
            objs = self.refinement.get_refinement_container_for_dim(d).get_objects()
            before = [tuple(ob.levels) for ob in objs]
            base.rebalance(self, d)
            after = [tuple(ob.levels) for ob in self.refinement.get_refinement_container_for_dim(d).get_objects()]
            if o is not None and before != after:
                o.rotations += 1
                o.on_rotation(self, d, before, after)
        Observed.rebalance = rebalance

    Observed.__name__ = "Observed" + base.__name__
    Observed.__qualname__ = Observed.__name__
    _OBS_CLASSES[base] = Observed
    return Observed


class Observer:
    """Base observer: counts steps and stops the history after max_steps refinements (at a quiescent point)."""

    def __init__(self, max_steps, err=None, max_depth=30, max_points=4000):
        self.max_points = max_points
        self.max_steps = max_steps
        self.steps = 0
        self.evals = 0
        self.err = err
        self.max_depth = max_depth
        self.rotations = 0
        self.lmax_raises = 0
        self._lmax_before = None

    def on_rotation(self, c, d, before, after):
        pass

    def before_refine(self, c):
        if self.steps >= self.max_steps:
            raise StopHistory()
        if self.deepest(c) >= self.max_depth:
            raise StopHistory()
        if self.max_points is not None:
            try:
                if c.get_total_num_points() > self.max_points:
                    raise StopHistory()
            except StopHistory:
                raise
            except Exception:
                pass
        self._lmax_before = list(getattr(c, "lmax", []))

    def deepest(self, c):
        try:
            best = 0
            for k in range(c.dim):
                w = float(c.b[k]) - float(c.a[k])
                for o in c.refinement.get_refinement_container_for_dim(k).get_objects():
                    best = max(best, max(o.levels))
                    g = w / (float(o.end) - float(o.start))
                    if math.isfinite(g) and g > 0:
                        best = max(best, int(math.log2(g)))
            return best
        except Exception:
            return 0

    def after_refine(self, c):
        self.steps += 1
        if self._lmax_before is not None and list(getattr(c, "lmax", [])) != self._lmax_before:
            self.lmax_raises += 1
        if self.err is not None:
            self.err.step = self.steps

    def before_evaluate(self, c):
        pass

    def after_evaluate(self, c, r):
        self.evals += 1


def run_adaptive(c, **kw):
    """performSpatiallyAdaptiv until the observer stops the history; returns the result tuple or None if stopped."""
    try:
        return c.performSpatiallyAdaptiv(**kw)
    except StopHistory:
        return None


# ---- generators shared by several properties -------------------------------------------------------------
INPUT_MODES = ["float_array", "int_list", "int_tuple", "int_array", "float_list", "float_tuple"]


def typed(vals, mode):
    """Hand a coordinate vector to the library the way callers do: a float ndarray (the harness default), a list / tuple of
    floats, or - when all values are whole numbers - python ints in a list / tuple or an integer-typed ndarray.
    The values are the same numbers in every mode."""
    vals = [float(v) for v in vals]
    whole = all(math.isfinite(v) and v == math.floor(v) and abs(v) < 2 ** 40 for v in vals)
    if mode == "int_list" and whole:
        return [int(v) for v in vals]
    if mode == "int_tuple" and whole:
        return tuple(int(v) for v in vals)
    if mode == "int_array" and whole:
        return np.array([int(v) for v in vals], dtype=np.int64)
    if mode in ("float_list", "int_list"):
        return list(vals)
    if mode in ("float_tuple", "int_tuple"):
        return tuple(vals)
    return np.array(vals, dtype=float)


def gen_box(rng, d, kinds=None):
    kinds = kinds or ["unit", "unit", "shifted", "negative", "aniso", "tiny", "huge", "dyadic"]
    kind = rng.choice(kinds)
    a, b = [], []
    for _ in range(d):
        if kind == "unit":
            lo, hi = 0.0, 1.0
        elif kind == "shifted":
            lo = rng.uniform(-3, 3)
            hi = lo + rng.uniform(0.3, 2.5)
        elif kind == "negative":
            hi = -rng.uniform(0.1, 2)
            lo = hi - rng.uniform(0.3, 2.5)
        elif kind == "aniso":
            lo = rng.uniform(-1, 1)
            hi = lo + 10 ** rng.uniform(-2, 2)
        elif kind == "tiny":
            lo = rng.uniform(-1, 1)
            hi = lo + 10 ** rng.uniform(-5, -3)
        elif kind == "huge":
            lo = rng.uniform(-1e3, 1e3)
            hi = lo + 10 ** rng.uniform(3, 5)
        elif kind == "mixed_scales":
            # edge lengths that differ by many orders of magnitude between the dimensions (one tolerance cannot fit all of them)
            w = rng.choice([1.0, 1e8, 5e9, 1e-6]) if len(a) else rng.choice([1.0, 1.0, 1e-6])
            if len(a) == 1 and abs(math.log10(w) - math.log10(b[0] - a[0])) < 5:
                w = 1e8 if (b[0] - a[0]) < 1e3 else 1.0
            lo = rng.choice([0.0, -0.4 * w, rng.uniform(-1, 1) * w])
            hi = lo + w
        elif kind == "integer":
            lo = float(rng.choice([-3, -2, -1, 0, 1, 2, 5]))
            hi = lo + float(rng.choice([1, 2, 4, 8]))
        else:  # dyadic
            lo = float(rng.choice([-2, -1, -0.5, 0, 1, 3]))
            hi = lo + float(rng.choice([0.25, 0.5, 1, 2, 4]))
        a.append(lo)
        b.append(hi)
    return kind, a, b
