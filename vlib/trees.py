"""Generator of 1-D refinement-tree grids (sorted points + levels) as the dimension-wise strategy produces them."""
import math


def gen_tree(rng, a, b, n_points=None, style=None, mid=None, max_depth=12, complete_level=None):
    """Returns (points, levels). Splits random leaf intervals at the midpoint (or mid(x1,x2)); child level = max+1."""
    mid = mid or (lambda x1, x2: 0.5 * (x1 + x2))
    style = style or rng.choice(["uniform", "uniform", "left", "right", "graded", "complete+"])
    n_points = n_points or rng.choice([3, 4, 5, 6, 7, 9, 12, 17, 24, 33, 48])
    pts = [a, b]
    lev = [0, 0]
    if complete_level is None and style == "complete+":
        complete_level = rng.choice([1, 2, 3])
    if complete_level:
        for _ in range(complete_level):
            i = 0
            while i < len(pts) - 1:
                m = mid(pts[i], pts[i + 1])
                pts.insert(i + 1, m)
                lev.insert(i + 1, max(lev[i], lev[i + 1]) + 1)
                i += 2
    hot = a + rng.random() * (b - a)
    guard = 0
    while len(pts) < n_points and guard < 10000:
        guard += 1
        n = len(pts) - 1
        if style in ("uniform", "complete+"):
            i = rng.randrange(n)
        elif style == "left":
            i = min(n - 1, int(abs(rng.gauss(0, max(1.0, n / 6.0)))))
        elif style == "right":
            i = max(0, n - 1 - int(abs(rng.gauss(0, max(1.0, n / 6.0)))))
        else:  # graded towards a hot spot
            cand = [j for j in range(n) if pts[j] <= hot <= pts[j + 1]]
            i = cand[0] if cand and rng.random() < 0.8 else rng.randrange(n)
        L = max(lev[i], lev[i + 1]) + 1
        if L > max_depth:
            if all(max(lev[j], lev[j + 1]) + 1 > max_depth for j in range(n)):
                break
            continue
        m = mid(pts[i], pts[i + 1])
        if not (pts[i] < m < pts[i + 1]):
            continue
        pts.insert(i + 1, m)
        lev.insert(i + 1, L)
    return pts, lev


def balanced_levels(n):
    """A different valid level assignment for n sorted points (end points 0, recursively the median gets the next level)."""
    lev = [0] * n

    def rec(i, j, L):
        if j - i < 2:
            return
        m = (i + j) // 2
        lev[m] = L
        rec(i, m, L + 1)
        rec(m, j, L + 1)
    rec(0, n - 1, 1)
    return lev


def has_complete_level(levels, L):
    """does the tree contain all 2^L+1 points of the levels 0..L?"""
    return sum(1 for x in levels if x <= L) == 2 ** L + 1


def max_complete_level(levels):
    L = 0
    while has_complete_level(levels, L + 1):
        L += 1
    return L


def ancestor(rng, pts, lev, min_points=3):
    """An earlier stage of the same refinement tree: a random non-empty subset of the deepest points (always leaves) is removed,
    possibly several times.  This is what an adaptive run hands to one grid object step after step (grids grow by refinement)."""
    P, L = list(pts), list(lev)
    for _ in range(rng.choice([1, 1, 2, 3])):
        m = max(L)
        if m == 0:
            break
        idx = [i for i, l in enumerate(L) if l == m]
        if len(P) - 1 < min_points:
            break
        drop = set(rng.sample(idx, rng.randint(1, len(idx))))
        while len(P) - len(drop) < min_points:
            drop.pop()
        if not drop:
            break
        P = [p for i, p in enumerate(P) if i not in drop]
        L = [l for i, l in enumerate(L) if i not in drop]
    return P, L


def variant(rng, pts, lev, max_depth=14):
    """Another refinement tree with (mostly) the same points: one deepest leaf point is removed and another leaf interval is split.
    Component grids of one adaptive iteration look like this to each other: many shared coordinates, different neighbours."""
    P, L = list(pts), list(lev)
    if len(P) < 4:
        return P, L
    m = max(L)
    idx = [i for i, l in enumerate(L) if l == m and 0 < i < len(P) - 1]
    if not idx:
        return P, L
    i = rng.choice(idx)
    removed = P[i]
    del P[i]
    del L[i]
    for _ in range(20):
        j = rng.randrange(len(P) - 1)
        mid = 0.5 * (P[j] + P[j + 1])
        newl = max(L[j], L[j + 1]) + 1
        if mid != removed and P[j] < mid < P[j + 1] and newl <= max_depth:
            P.insert(j + 1, mid)
            L.insert(j + 1, newl)
            break
    return P, L


def same_shape_on(levels, a, b):
    """The midpoint-split refinement tree with the given level sequence, built on another interval [a, b] with the library's own
    midpoint arithmetic 0.5*(left+right): same tree shape, other coordinates / interval length."""
    n = len(levels)
    pts = [None] * n
    pts[0], pts[-1] = float(a), float(b)

    def fill(i, j):
        if j - i < 2:
            return
        inner = range(i + 1, j)
        k = min(inner, key=lambda t: levels[t])
        pts[k] = 0.5 * (pts[i] + pts[j])
        fill(i, k)
        fill(k, j)
    fill(0, n - 1)
    return pts
