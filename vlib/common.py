"""Shared helpers: seeding, violation records, result records, JSON sanitising."""
import hashlib
import json
import os
import random

VERIF_DIR = os.path.dirname(os.path.dirname(os.path.abspath(__file__)))


def repo_dir():
    return os.path.abspath(os.environ.get("VERIF_REPO", "/repo"))


def case_seed(base, prop, gen, index):
    h = hashlib.blake2b(("%s|%s|%s|%s" % (base, prop, gen, index)).encode(), digest_size=8).digest()
    return int.from_bytes(h, "big") & 0x7FFFFFFF


def digest(obj):
    return hashlib.blake2b(json.dumps(tojson(obj), sort_keys=True).encode(), digest_size=10).hexdigest()


def tojson(o, depth=0):
    """Make numpy / tuples / sets JSON serialisable (bounded)."""
    try:
        import numpy as np
    except Exception:  # pragma: no cover
        np = None
    if o is None or isinstance(o, (bool, int, str)):
        return o
    if isinstance(o, float):
        if o != o or o in (float("inf"), float("-inf")):
            return repr(o)
        return o
    if np is not None:
        if isinstance(o, np.generic):
            return tojson(o.item(), depth)
        if isinstance(o, np.ndarray):
            return tojson(o.tolist(), depth)
    if isinstance(o, dict):
        return {str(k): tojson(v, depth + 1) for k, v in o.items()}
    if isinstance(o, (list, tuple)):
        return [tojson(v, depth + 1) for v in o]
    if isinstance(o, (set, frozenset)):
        return sorted((tojson(v, depth + 1) for v in o), key=lambda x: json.dumps(x, sort_keys=True))
    return repr(o)


class Result:
    """Per-case record produced by a property's run_case."""

    def __init__(self, case):
        self.case = case
        self.violations = []   # list of dict(sig, msg, witness)
        self.counters = {}     # monitor name -> number of evaluations
        self.resid = {}        # oracle name -> max observed residual
        self.hash = None       # structural hash of what was explored
        self.nontrivial = False
        self.states = set()    # small set of state digests seen (for evidence)
        self.sample = None     # a written-out trace of the case
        self.notes = {}        # observations (reported, not judged)

    def count(self, name, n=1):
        self.counters[name] = self.counters.get(name, 0) + n

    def residual(self, name, value):
        v = float(value)
        if v != v:
            v = float("inf")
        if v > self.resid.get(name, -1.0):
            self.resid[name] = v

    def note(self, name, n=1):
        self.notes[name] = self.notes.get(name, 0) + n

    def violate(self, sig, msg, witness=None):
        # at most a few witnesses per signature per case
        n = sum(1 for v in self.violations if v["sig"] == sig)
        if n < 3:
            self.violations.append({"sig": sig, "msg": msg, "witness": tojson(witness)})

    def check(self, monitor, ok, sig, msg, witness=None):
        """Count one evaluation of `monitor`; record a violation if not ok."""
        self.count(monitor)
        if not ok:
            self.violate(sig, msg, witness)
        return ok

    def close(self, monitor, value, expected, tol, sig, msg, witness=None):
        """Numeric oracle: |value-expected| <= tol (arrays allowed); records residual/tol ratio."""
        import numpy as np
        self.count(monitor)
        try:
            v = np.asarray(value, dtype=float)
            e = np.asarray(expected, dtype=float)
            if v.shape != e.shape:
                v, e = np.broadcast_arrays(v, e)
            diff = np.abs(v - e)
            bad = ~np.isfinite(v) | (diff > tol)
            worst = float(np.max(diff)) if diff.size else 0.0
            if not np.all(np.isfinite(v)):
                worst = float("inf")
        except Exception as ex:  # shape mismatch etc.
            self.violate(sig, msg + " (uncomparable: %r)" % (ex,), witness)
            return False
        tolmax = float(np.max(tol)) if np.size(tol) else 0.0
        self.residual(monitor, worst / tolmax if tolmax > 0 else (0.0 if worst == 0 else float("inf")))
        if np.any(bad):
            w = {"observed": np.asarray(v).ravel()[:8], "expected": np.asarray(e).ravel()[:8],
                 "max_abs_diff": worst, "tol": tolmax}
            if witness is not None:
                w["context"] = witness
            self.violate(sig, msg, w)
            return False
        return True

    def to_dict(self):
        return {"case": tojson(self.case), "violations": self.violations, "counters": self.counters,
                "resid": self.resid, "hash": self.hash, "nontrivial": bool(self.nontrivial),
                "states": sorted(self.states)[:64], "sample": tojson(self.sample), "notes": self.notes}


def rng_for(case):
    return random.Random(case["seed"])
