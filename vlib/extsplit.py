"""Engine for extend-split refinement histories (C07, C04, C05, C13, C14)."""
import itertools
from fractions import Fraction

import numpy as np

from vlib import hooks
from vlib.common import digest


def gen_config(rng, tier, versions=(0, 0, 1, 2), dims=(2, 2, 2, 3, 3, 4), boundary_choices=(True, True, False)):
    d = rng.choice(dims)
    lmin, lmax = rng.choice([(1, 2), (1, 2), (1, 3), (2, 3)])
    if d == 2 and rng.random() < 0.1:
        lmin, lmax = rng.choice([(2, 4), (1, 4), (3, 4), (3, 5)])      # high start levels / large level differences
    if d == 4:
        lmin, lmax = rng.choice([(1, 2), (2, 3)])
    kind, a, b = hooks.gen_box(rng, d, ["unit", "unit", "shifted", "negative", "aniso", "dyadic", "tiny", "huge", "integer", "integer"])
    cap = {2: 12, 3: 7, 4: 4}[d] if tier == "quick" else {2: 30, 3: 14, 4: 7}[d]
    cfg = {
        "d": d, "lmin": lmin, "lmax": lmax, "a": a, "b": b, "box": kind,
        "version": rng.choice(versions),
        "before_extend": rng.choice([0, 1, 1, 2, 3, 4]),
        "automatic": rng.random() < 0.35,
        "single_dim": rng.random() < 0.3,
        "boundary": rng.choice(boundary_choices),
        "margin": rng.choice([0.5, 0.9, 0.9, 1.0]),
        "profile": rng.choice(["real", "real", "uniform", "sparse", "ties", "single", "hotspot", "equal"]),
        "steps": rng.randint(1, cap),
        "errseed": rng.randrange(2 ** 31),
    }
    cfg["recalc"] = rng.choice([None, None, None, 1, 3, 10])   # recalculate_frequently with this many refinements per restart
    # how the caller hands over the domain: float arrays (default), lists / tuples, python ints or integer arrays on whole-number boxes
    cfg["input_mode"] = rng.choice(hooks.INPUT_MODES) if (kind == "integer" or rng.random() < 0.1) else "float_array"
    if cfg["profile"] == "equal":
        cfg["steps"] = min(cfg["steps"], 3 if d == 2 else 2)
    return cfg


def make_grid(cfg):
    from sparseSpACE import Grid as G
    a, b = hooks.typed(cfg["a"], cfg.get("input_mode", "float_array")), hooks.typed(cfg["b"], cfg.get("input_mode", "float_array"))
    kind = cfg.get("grid", "Trapezoidal")
    if kind == "ClenshawCurtis":
        return G.ClenshawCurtisGrid(a=a, b=b, boundary=True)
    if kind == "GaussLegendre":
        return G.GaussLegendreGrid(a=a, b=b)
    if kind == "TrapezoidalMixedFlags":
        # per-dimension boundary flags (Grid.set_boundaries): the n-d attribute keeps the constructor's value
        g = G.TrapezoidalGrid(a=a, b=b, boundary=bool(cfg["flags_base"]))
        g.set_boundaries([bool(x) for x in cfg["flags"]])
        return g
    return G.TrapezoidalGrid(a=a, b=b, boundary=cfg["boundary"])


def build(cfg, f, observer, reference=None, norm=np.inf):
    from sparseSpACE.spatiallyAdaptiveExtendSplit import SpatiallyAdaptiveExtendScheme
    from sparseSpACE.GridOperation import Integration
    a, b = hooks.typed(cfg["a"], cfg.get("input_mode", "float_array")), hooks.typed(cfg["b"], cfg.get("input_mode", "float_array"))
    grid = make_grid(cfg)
    op = Integration(f=f, grid=grid, dim=cfg["d"], reference_solution=reference, print_level=100, log_level=100)
    cls = hooks.observed(SpatiallyAdaptiveExtendScheme)
    c = cls(a, b, number_of_refinements_before_extend=cfg["before_extend"], version=cfg["version"],
            automatic_extend_split=cfg["automatic"], split_single_dim=cfg["single_dim"], operation=op, norm=norm)
    c.margin = cfg["margin"]
    c.log_util.set_print_level(100)
    c.log_util.set_log_level(100)
    c.vobs = observer
    c.verif_recalc = cfg.get("recalc")
    return c


def make_err(cfg):
    from sparseSpACE.ErrorCalculator import ErrorCalculatorExtendSplit
    if cfg["profile"] == "real":
        return ErrorCalculatorExtendSplit()
    return hooks.RandErr(cfg["errseed"], cfg["profile"], cfg["d"], cfg["a"], cfg["b"])


def run(c, cfg, err, **kw):
    args = dict(lmin=cfg["lmin"], lmax=cfg["lmax"], errorOperator=err, tol=-1.0, do_plot=False, print_output=False,
                max_evaluations=10 ** 9)
    args.update(kw)
    return hooks.run_adaptive(c, **args)


def leaves(c):
    return list(c.refinement.get_objects())


def structure_digest(c):
    return digest(sorted((tuple(float(x) for x in o.start), tuple(float(x) for x in o.end), int(o.coarseningValue)) for o in leaves(c)))


def check_tiling(res, c, where):
    d = c.dim
    L = leaves(c)
    a = [Fraction(float(x)) for x in c.a]
    b = [Fraction(float(x)) for x in c.b]
    boxes = []
    ok_box = True
    for o in L:
        s = [Fraction(float(x)) for x in o.start]
        e = [Fraction(float(x)) for x in o.end]
        if len(s) != d or len(e) != d or not all(s[k] < e[k] for k in range(d)) or not all(a[k] <= s[k] and e[k] <= b[k] for k in range(d)):
            ok_box = False
        boxes.append((s, e))
    res.check("boxes_valid", ok_box, "extsplit_leaf_box_degenerate_or_outside",
              "%s: a leaf is degenerate or not inside the domain" % where,
              {"leaves": [(list(map(float, s)), list(map(float, e))) for s, e in boxes[:10]]})
    vol = sum(np.prod([e[k] - s[k] for k in range(d)]) for s, e in boxes)
    dom = np.prod([b[k] - a[k] for k in range(d)])
    res.check("volumes_sum_to_domain", vol == dom, "extsplit_leaf_volumes",
              "%s: leaf volumes sum to %s, domain volume %s" % (where, float(vol), float(dom)), {"n_leaves": len(L)})
    overlap = None
    n = len(boxes)
    if n <= 600:
        S = np.array([[float(x) for x in s] for s, _ in boxes])
        E = np.array([[float(x) for x in e] for _, e in boxes])
        for i in range(n):
            inter = np.all((np.maximum(S[i], S[i + 1:]) < np.minimum(E[i], E[i + 1:])), axis=1) if i + 1 < n else np.array([])
            if inter.size and inter.any():
                j = i + 1 + int(np.argmax(inter))
                overlap = (i, j)
                break
        res.check("disjoint_interiors", overlap is None, "extsplit_leaves_overlap",
                  "%s: leaves %s overlap" % (where, overlap), {"pair": [[S[overlap[0]].tolist(), E[overlap[0]].tolist()],
                                                                          [S[overlap[1]].tolist(), E[overlap[1]].tolist()]]} if overlap else None)
    cv = [o.coarseningValue for o in L]
    res.check("coarsening_nonnegative", all(isinstance(v, (int, np.integer)) and v >= 0 for v in cv), "extsplit_negative_coarsening",
              "%s: coarsening values %s" % (where, cv[:20]))
    return boxes


def probe_points(c, rng, n_random=40):
    d = c.dim
    L = leaves(c)
    a, b = np.array(c.a, dtype=float), np.array(c.b, dtype=float)
    P = set()
    for _ in range(n_random):
        P.add(tuple(float(a[k] + rng.random() * (b[k] - a[k])) for k in range(d)))
    sample = L if len(L) <= 24 else rng.sample(L, 24)
    for o in sample:
        s, e = np.array(o.start, dtype=float), np.array(o.end, dtype=float)
        m = 0.5 * (s + e)
        # corners, face midpoints, edge points of leaves (shared with neighbours)
        for _ in range(4):
            P.add(tuple(float(rng.choice([s[k], e[k], m[k]])) for k in range(d)))
    for corner in itertools.islice(itertools.product(*[(a[k], b[k]) for k in range(d)]), 16):
        P.add(tuple(float(x) for x in corner))
    return sorted(P)


def check_assignment(res, c, P, where):
    ass = c.get_points_assignement_to_areas(list(P))
    leaf_ids = set(id(o) for o in leaves(c))
    seen = {}
    ok_contains = True
    ok_leaf = True
    for area, pts in ass:
        if id(area) not in leaf_ids:
            ok_leaf = False
        for p in pts:
            p = tuple(p)
            seen[p] = seen.get(p, 0) + 1
            if not all(area.start[k] <= p[k] <= area.end[k] for k in range(c.dim)):
                ok_contains = False
    missing = [p for p in P if seen.get(tuple(p), 0) == 0]
    multi = [p for p in P if seen.get(tuple(p), 0) > 1]
    res.check("assignment_exactly_once", not missing and not multi and len(seen) == len(P), "extsplit_point_assignment",
              "%s: %d probe points unassigned, %d assigned more than once" % (where, len(missing), len(multi)),
              {"missing": missing[:4], "multiple": multi[:4]})
    res.check("assignment_in_containing_leaf", ok_contains and ok_leaf, "extsplit_point_assigned_to_wrong_area",
              "%s: a point was assigned to an area that does not contain it or is not a leaf" % where)


def local_grids(c, area):
    """[(coefficient, coarsened level, points)] for the component grids actually computed on this area (scheme order)."""
    out = []
    for g in c.scheme:
        lv, do_compute = c.coarsen_grid(g.levelvector, area)
        if do_compute:
            c.grid.setCurrentArea(area.start, area.end, lv)
            pts = [tuple(float(x) for x in p) for p in c.grid.getPoints()]
            out.append((g.coefficient, tuple(int(x) for x in lv), pts))
    return out


def check_local_combination(res, c, where, f=None, comp=0, max_leaves=40, rng=None, sigsuffix=""):
    L = leaves(c)
    if len(L) > max_leaves and rng is not None:
        L = rng.sample(L, max_leaves)
    interior = []
    for o in L:
        tot = {}
        for coef, lv, pts in local_grids(c, o):
            for p in pts:
                tot[p] = tot.get(p, 0) + coef
        bad = [(p, v) for p, v in tot.items() if v != 1]
        res.check("local_coefficient_sum", not bad, "extsplit_local_coefficient_sum" + sigsuffix,
                  "%s: in leaf %s..%s (coarsening %s) %d of %d local grid points have coefficients not summing to 1" % (
                      where, list(o.start), list(o.end), o.coarseningValue, len(bad), len(tot)),
                  {"examples": bad[:5], "scheme": [(list(g.levelvector), g.coefficient) for g in c.scheme]})
        for p in tot:
            if all(o.start[k] < p[k] < o.end[k] for k in range(c.dim)):
                interior.append(p)
    if f is not None and interior:
        pts = sorted(set(interior))
        if len(pts) > 800 and rng is not None:
            pts = rng.sample(pts, 800)
        if rng is not None and len(pts) >= 2 and rng.random() < 0.5:
            # an evaluation list may contain a point several times (points collected leaf by leaf, concatenated point sets)
            pts = pts + [pts[rng.randrange(len(pts))] for _ in range(rng.randint(1, 6))]
            rng.shuffle(pts)
            res.count("evaluation_list_with_repeated_points")
        vals = np.asarray(c(pts))
        exp = np.array([f.eval(p) for p in pts])
        nsch = sum(abs(g.coefficient) for g in c.scheme)
        cond = max(max(abs(float(c.a[k])), abs(float(c.b[k]))) / max(1e-300, min(float(o.end[k]) - float(o.start[k]) for o in leaves(c)) / 2 ** c.lmax[0])
                   for k in range(c.dim))
        tol = (1e-11 + 4e-16 * cond) * nsch * max(getattr(f, "magnitude", 1.0), float(np.max(np.abs(exp))))
        res.close("local_nodal_reproduction", vals[:, comp], exp[:, comp], tol, "extsplit_interpolant_not_nodal" + sigsuffix,
                  "%s: c(x) differs from the function at local grid points strictly inside their leaf" % where,
                  {"n_points": len(pts)})
