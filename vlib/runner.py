"""Shard planner / aggregator / verdict.  See DESIGN.md section 1."""
import argparse
import concurrent.futures as cf
import importlib
import json
import os
import shutil
import subprocess
import sys
import tempfile
import time

from vlib.common import VERIF_DIR, repo_dir, tojson

PY = "/venv/bin/python"


def ensure_deps():
    deps = os.path.join(VERIF_DIR, ".deps")
    if os.path.isdir(os.path.join(deps, "icontract")):
        return
    subprocess.run([PY, "-m", "pip", "install", "-q", "--no-index", "--find-links", "/opt/veriftools/wheels",
                    "--target", deps, "icontract", "deal"], check=False,
                   stdout=subprocess.DEVNULL, stderr=subprocess.DEVNULL)


def scratch_root():
    base = os.environ.get("VERIF_SCRATCH") or tempfile.gettempdir()
    return tempfile.mkdtemp(prefix="vp_sparse_", dir=base)


def run_chunk(prop, idx, cases, root, timeout):
    d = os.path.join(root, "s%05d" % idx)
    os.makedirs(d)
    chunk = os.path.join(d, "chunk.json")
    out = os.path.join(d, "out.jsonl")
    with open(chunk, "w") as fh:
        json.dump(cases, fh)
    env = dict(os.environ)
    env["PYTHONPATH"] = VERIF_DIR
    env["PYTHONHASHSEED"] = "0"
    env["PYTHONDONTWRITEBYTECODE"] = "1"
    env["MPLBACKEND"] = "Agg"
    env["SPARSESPACE_VERIF"] = "1"
    for k in ("OMP_NUM_THREADS", "OPENBLAS_NUM_THREADS", "MKL_NUM_THREADS", "NUMEXPR_NUM_THREADS"):
        env[k] = "1"
    status = "ok"
    err = ""
    try:
        p = subprocess.run([PY, "-B", "-m", "vlib.worker", prop, chunk, out], cwd=d, env=env,
                           stdout=subprocess.PIPE, stderr=subprocess.PIPE, timeout=timeout)
        if p.returncode != 0:
            status = "crashed"
            err = p.stderr.decode(errors="replace")[-3000:]
    except subprocess.TimeoutExpired:
        status = "timeout"
    results = []
    if os.path.exists(out):
        with open(out) as fh:
            for line in fh:
                line = line.strip()
                if line:
                    try:
                        results.append(json.loads(line))
                    except Exception:
                        pass
    reach = {}
    if os.path.exists(out + ".reach"):
        try:
            with open(out + ".reach") as fh:
                reach = json.load(fh)
        except Exception:
            reach = {}
    shutil.rmtree(d, ignore_errors=True)
    return idx, status, err, results, len(cases), reach


def executable_lines(path):
    """{qualname: set(lines)} of the functions of a source file, from the compiled code objects (what LINE events can report)."""
    with open(path) as fh:
        src = fh.read()
    top = compile(src, path, "exec")
    per = {}
    stack = [top]
    while stack:
        co = stack.pop()
        lines = set(ln for _, _, ln in co.co_lines() if ln is not None)
        nested = [c for c in co.co_consts if hasattr(c, "co_code")]
        stack.extend(nested)
        if co is not top:
            lines.discard(co.co_firstlineno)
            per.setdefault(co.co_qualname, set()).update(lines)
    return per


def reach_report(prop, reach):
    """Which of the functions anchored for this property (vlib/anchors.json) did the workload execute, and how much of them."""
    try:
        with open(os.path.join(VERIF_DIR, "vlib", "anchors.json")) as fh:
            anchors = json.load(fh)["anchors"].get(prop, [])
    except Exception:
        return None
    repo = repo_dir()
    cache = {}
    per_fn = {}
    unreached, missing = [], []
    tot = hit = 0
    for an in anchors:
        f = an["file"]
        rel = f.split("/", 1)[1]
        if f not in cache:
            try:
                cache[f] = executable_lines(os.path.join(repo, f))
            except Exception:
                cache[f] = {}
        q = an["qualname"].replace(".__", "._%s__" % an["qualname"].split(".")[0]) if False else an["qualname"]
        # nested functions / comprehensions carry '<locals>' in co_qualname: collect everything below the anchored function
        lines = set()
        for name, ls in cache[f].items():
            if name == q or name.startswith(q + ".<locals>"):
                lines |= ls
        if not lines:
            missing.append("%s:%s" % (rel, q))
            continue
        h = lines & set(reach.get(rel, []))
        tot += len(lines)
        hit += len(h)
        per_fn["%s:%s" % (rel, q)] = [len(h), len(lines)]
        if not h:
            unreached.append("%s:%s" % (rel, q))
    return {"anchored_functions": len(per_fn), "anchored_functions_reached": len(per_fn) - len(unreached),
            "anchored_lines_executable": tot, "anchored_lines_executed": hit,
            "anchored_functions_not_reached": unreached, "anchored_functions_not_in_current_tree": missing,
            "per_function_lines_executed_of_executable": per_fn,
            "repository_lines_executed": {f: len(v) for f, v in sorted(reach.items())},
            "method": "sys.monitoring LINE events in every worker (each location disabled after its first hit); anchored functions "
                      "= innermost functions overlapping the line ranges of properties.jsonl at the pinned commit"}


def load_known():
    p = os.path.join(VERIF_DIR, "known_findings.json")
    if not os.path.exists(p):
        return []
    with open(p) as fh:
        return json.load(fh).get("findings", [])


def main(argv=None):
    ap = argparse.ArgumentParser()
    ap.add_argument("prop")
    ap.add_argument("--tier", default=os.environ.get("VERIF_TIER", "quick"))
    ap.add_argument("--seed", type=int, default=int(os.environ.get("VERIF_SEED", "0") or 0))
    ap.add_argument("--replay", default=None)
    ap.add_argument("--jobs", type=int, default=int(os.environ.get("VERIF_JOBS", "0") or 0) or (os.cpu_count() or 4))
    ap.add_argument("--limit", type=int, default=0, help="debug: only the first N cases")
    ap.add_argument("--no-evidence", action="store_true")
    a = ap.parse_args(argv)
    prop = a.prop.upper()
    tier = a.tier if a.tier in ("quick", "thorough") else "quick"
    t0 = time.time()
    ensure_deps()
    sys.path.append(os.path.join(VERIF_DIR, ".deps"))
    mod = importlib.import_module("props." + prop.lower())

    if a.replay:
        with open(a.replay) as fh:
            rp = json.load(fh)
        cases = [rp["case"]]
        tier = rp.get("tier", tier)
    else:
        cases = list(mod.cases(tier, a.seed))
        if a.limit:
            cases = cases[:a.limit]
    for i, c in enumerate(cases):
        c.setdefault("id", "%s-%s-%d-%06d" % (prop, tier[0], a.seed, i))

    chunk_size = int(getattr(mod, "CHUNK", {}).get(tier, 20)) if isinstance(getattr(mod, "CHUNK", None), dict) \
        else int(getattr(mod, "CHUNK", 20))
    chunk_size = max(1, min(chunk_size, (len(cases) + a.jobs - 1) // max(1, a.jobs)))
    # interleave so that each chunk holds a mix of generators
    nchunks = max(1, (len(cases) + chunk_size - 1) // chunk_size)
    chunks = [cases[i::nchunks] for i in range(nchunks)]
    timeout = float(getattr(mod, "SHARD_TIMEOUT", {}).get(tier, 900 if tier == "quick" else 7200)) \
        if isinstance(getattr(mod, "SHARD_TIMEOUT", None), dict) else (900 if tier == "quick" else 7200)

    if not a.replay:
        shutil.rmtree(os.path.join(VERIF_DIR, "replay", prop), ignore_errors=True)
    root = scratch_root()
    all_results = []
    shard_problems = []
    reach_all = {}
    try:
        with cf.ThreadPoolExecutor(max_workers=a.jobs) as ex:
            futs = [ex.submit(run_chunk, prop, i, ch, root, timeout) for i, ch in enumerate(chunks) if ch]
            for f in cf.as_completed(futs):
                idx, status, err, results, n, rch = f.result()
                all_results.extend(results)
                for rf, rl in rch.items():
                    reach_all.setdefault(rf, set()).update(rl)
                if status != "ok" or len(results) != n:
                    shard_problems.append({"shard": idx, "status": status, "got": len(results), "expected": n,
                                           "stderr": err[-1500:],
                                           "next_case": tojson(chunks[idx][len(results)]) if len(results) < n else None})
    finally:
        shutil.rmtree(root, ignore_errors=True)

    # ---- aggregate
    known = [k for k in load_known() if k.get("property") == prop]
    known_open = {k["sig"]: k for k in known if k.get("status") == "known"}
    counters, resid, notes = {}, {}, {}
    hashes_nontrivial = set()
    states = set()
    samples = []
    viol_new = {}    # sig -> list of (case, violation)
    viol_known = {}  # sig -> count
    harness_errors = []
    walls = []
    for r in all_results:
        walls.append(r.get("wall", 0.0))
        if r.get("harness_error"):
            harness_errors.append({"case": r["case"], "error": r["harness_error"]})
            continue
        for k, v in r["counters"].items():
            counters[k] = counters.get(k, 0) + v
        for k, v in r["resid"].items():
            resid[k] = max(resid.get(k, -1.0), v)
        for k, v in r.get("notes", {}).items():
            notes[k] = notes.get(k, 0) + v
        if r["nontrivial"] and r["hash"] is not None:
            hashes_nontrivial.add(r["hash"])
        states.update(r.get("states", []))
        if r.get("sample") is not None and len(samples) < 4 and (r["nontrivial"] or len(samples) < 1):
            samples.append({"case": r["case"], "trace": r["sample"]})
        for v in r["violations"]:
            if v["sig"] in known_open:
                viol_known[v["sig"]] = viol_known.get(v["sig"], 0) + 1
            else:
                viol_new.setdefault(v["sig"], []).append((r["case"], v))

    if not samples and all_results:
        samples.append({"case": all_results[0]["case"], "trace": all_results[0].get("sample")})

    required = list(getattr(mod, "REQUIRED", []))
    min_nt = getattr(mod, "MIN_NONTRIVIAL", {"quick": 2, "thorough": 2}).get(tier, 2)
    inconclusive = []
    if not a.replay:
        for m in required:
            if counters.get(m, 0) == 0:
                inconclusive.append("deciding monitor '%s' never evaluated" % m)
        if len(hashes_nontrivial) < min_nt:
            inconclusive.append("only %d distinct non-trivial cases (< %d)" % (len(hashes_nontrivial), min_nt))
    for sp in shard_problems:
        inconclusive.append("shard %s %s (%d/%d cases returned)" % (sp["shard"], sp["status"], sp["got"], sp["expected"]))
    if harness_errors:
        inconclusive.append("%d harness errors" % len(harness_errors))

    # ---- report
    for sig, n in sorted(viol_known.items()):
        print("KNOWN-FINDING: property=%s %s [%s] (seen %d times this run)" % (prop, known_open[sig].get("what", ""), sig, n))
    replay_paths = []
    if viol_new:
        rdir = os.path.join(VERIF_DIR, "replay", prop)
        os.makedirs(rdir, exist_ok=True)
        for sig, lst in sorted(viol_new.items()):
            case, v = lst[0]
            safe = "".join(ch if ch.isalnum() or ch in "-_." else "_" for ch in sig)[:80]
            path = os.path.join(rdir, "%s__%s.json" % (case.get("id", "case"), safe))
            with open(path, "w") as fh:
                json.dump({"property": prop, "tier": tier, "seed": a.seed, "case": case, "violation": v,
                           "occurrences": len(lst)}, fh, indent=1)
            replay_paths.append(path)
            print("VIOLATION property=%s replay=%s" % (prop, path))
            print("  sig=%s occurrences=%d :: %s" % (sig, len(lst), v["msg"][:400]))
    wall = time.time() - t0
    verdict = "violated" if viol_new else ("inconclusive" if inconclusive else "held")

    if not a.replay and not a.no_evidence:
        ev = {
            "property_id": prop, "tier": tier, "seed": a.seed, "level": "exploration",
            "coverage": {
                "evaluations": len(all_results),
                "distinct_nontrivial": len(hashes_nontrivial),
                "rule": getattr(mod, "RULE", ""),
                "samples": samples,
                "monitor_evaluations": counters,
                "max_residual_over_tolerance": {k: (v if v == v and v != float("inf") else repr(v)) for k, v in resid.items()},
                "observations": notes,
                "distinct_states_seen": len(states),
                "known_findings_hit": viol_known,
                "new_violation_signatures": {k: len(v) for k, v in viol_new.items()},
                "inconclusive_reasons": inconclusive,
                "verdict": verdict,
                "shards": len(chunks), "shard_problems": shard_problems[:5],
                "harness_errors": harness_errors[:3],
                "case_wall_s_max": max(walls) if walls else 0.0,
                "case_wall_s_sum": sum(walls),
                "repo": repo_dir(),
                "reach": reach_report(prop, {k: sorted(v) for k, v in reach_all.items()}),
            },
            "assumptions": list(getattr(mod, "ASSUMPTIONS", [])),
            "wall_s": wall,
            "violations": sum(len(v) for v in viol_new.values()),
        }
        os.makedirs(os.path.join(VERIF_DIR, "evidence"), exist_ok=True)
        evp = os.environ.get("VERIF_EVIDENCE") or os.path.join(VERIF_DIR, "evidence", "%s.json" % prop)
        with open(evp, "w") as fh:
            json.dump(tojson(ev), fh, indent=1)

    if os.environ.get("VERIF_REACH_DUMP"):
        os.makedirs(os.environ["VERIF_REACH_DUMP"], exist_ok=True)
        with open(os.path.join(os.environ["VERIF_REACH_DUMP"], "%s.%s.json" % (prop, tier)), "w") as fh:
            json.dump({k: sorted(v) for k, v in reach_all.items()}, fh)
    nt = len(hashes_nontrivial)
    print("%s tier=%s seed=%d cases=%d distinct_nontrivial=%d monitors=%s wall=%.1fs verdict=%s" % (
        prop, tier, a.seed, len(all_results), nt,
        ",".join("%s:%d" % kv for kv in sorted(counters.items())), wall, verdict.upper()))
    if resid:
        print("  max residual/tolerance: " + ", ".join("%s=%.2g" % kv for kv in sorted(resid.items())))
    if a.replay:
        for r in all_results:
            for v in r["violations"]:
                print("  replay: sig=%s :: %s" % (v["sig"], v["msg"][:600]))
            if r.get("harness_error"):
                print(r["harness_error"])
    if viol_new:
        return 1
    if inconclusive:
        for r in inconclusive:
            print("INCONCLUSIVE property=%s reason=%s" % (prop, r))
        for he in harness_errors[:2]:
            print(he["error"])
        for sp in shard_problems[:2]:
            print(sp["stderr"])
        return 2
    return 0


if __name__ == "__main__":
    sys.exit(main())
