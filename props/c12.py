"""C12 — function evaluation is cache-transparent and matches its analytic integral."""
import itertools
import math
import random

import numpy as np

from vlib import refmodels as rm
from vlib.common import case_seed, digest

RULE = ("(a) generated evaluation histories (single point, batch, empty batch, batch with duplicates, eval_vectorized on 2-D/3-D "
        "arrays, reset_dictionary, deactivate_caching, get_f_dict_size) on every built-in Function class with random admissible "
        "parameters, d=1..4, judged against a pristine twin instance evaluated through eval() only; (b) analytic integrals of every "
        "class that offers one (except FunctionGeneralizedNormal) over random boxes vs tensor Gauss-Legendre of the point "
        "evaluation, boxes pre-split at declared kinks; (c) in-situ cache coherence after a real adaptive run. distinct = "
        "(class, dimension, digest of op kinds / box); non-trivial = history with >=1 batch and >=1 repeated point, or integral "
        "over a box that is not the unit cube / is cut by a kink")
RULE += (" " + 'Evaluation points include coordinates exactly on the declared break points of the class (borders / mid points).')
RULE += (" Points with whole-number coordinates are also handed over as python ints, as integer-typed numpy batches and mixed with floats (the same points, hence the same values and cache entries).")
RULE += (" In a third of the calls the caller then modifies the returned array in place (the result belongs to the caller; the cache must not alias it).")
REQUIRED = ["value_single", "value_batch", "shape_single", "shape_batch", "empty_batch", "value_vectorized", "counter",
            "analytic_integral", "nocache_single", "cache_coherence_after_run"]
MIN_NONTRIVIAL = {"quick": 300, "thorough": 3000}
CHUNK = {"quick": 60, "thorough": 400}
ASSUMPTIONS = ["reference quadrature: tensor Gauss-Legendre 32-48 points per (sub)interval, d<=3 for integrals",
               "evaluation counter judged with caching on only (documented design of the single-point path)",
               "caller-side in-place modification of returned arrays is reported, not judged"]


def cases(tier, seed):
    out = []
    nh = 1500 if tier == "quick" else 40000
    ni = 700 if tier == "quick" else 20000
    nr = 24 if tier == "quick" else 300
    for i in range(nh):
        out.append({"gen": "history", "seed": case_seed(seed, "C12", "history", i)})
    for i in range(ni):
        out.append({"gen": "integral", "seed": case_seed(seed, "C12", "integral", i)})
    for i in range(nr):
        out.append({"gen": "run", "seed": case_seed(seed, "C12", "run", i)})
    return out


# ---- class catalogue --------------------------------------------------------------------------------
def make_function(name, d, rng):
    """returns (instance factory, domain kind, kink list per dim, output_length)"""
    import sparseSpACE.Function as F
    pos = lambda lo=0.5, hi=3.0: [rng.uniform(lo, hi) for _ in range(d)]
    mid = [rng.uniform(0.1, 0.9) for _ in range(d)]
    if name == "ConstantValue":
        v = rng.uniform(-3, 3)
        return (lambda: F.ConstantValue(v)), "any", None, 1
    if name == "FunctionLinear":
        c = [rng.uniform(-2, 2) or 1.0 for _ in range(d)]
        return (lambda: F.FunctionLinear(c)), "any", None, 1
    if name == "FunctionMultilinear":
        c = [rng.uniform(-2, 2) for _ in range(d)]
        return (lambda: F.FunctionMultilinear(c)), "any", None, 1
    if name == "FunctionPolynomial":
        c = [rng.uniform(-2, 2) for _ in range(d)]
        deg = rng.choice([1, 2, 3, 4])
        return (lambda: F.FunctionPolynomial(c, degree=deg)), "any", None, 1
    if name == "Polynomial1d":
        c = [rng.uniform(-2, 2) for _ in range(rng.randint(1, 6))]
        return (lambda: F.Polynomial1d(c)), "any1d", None, 1
    if name == "GenzCornerPeak":
        c = pos()
        return (lambda: F.GenzCornerPeak(coeffs=c)), "positive", None, 1
    if name == "GenzProductPeak":
        c = pos()
        return (lambda: F.GenzProductPeak(coefficients=c, midpoint=mid)), "any", None, 1
    if name == "GenzOszillatory":
        c = [rng.choice([0.0, rng.uniform(-3, 3), rng.uniform(0.5, 3)]) for _ in range(d)]
        off = rng.uniform(0, 1)
        return (lambda: F.GenzOszillatory(coeffs=c, offset=off)), "any", None, 1
    if name == "GenzDiscontinious":
        c = pos()
        return (lambda: F.GenzDiscontinious(coeffs=c, border=mid)), "any", [[m] for m in mid], 1
    if name == "GenzDiscontinious2":
        c = pos()
        return (lambda: F.GenzDiscontinious2(coeffs=c, border=mid)), "any", [[m] for m in mid], 2
    if name == "GenzC0":
        c = pos()
        return (lambda: F.GenzC0(coeffs=c, midpoint=mid)), "any", [[m] for m in mid], 1
    if name == "GenzGaussian":
        c = pos()
        return (lambda: F.GenzGaussian(midpoint=mid, coefficients=c)), "any", None, 1
    if name == "FunctionExpVar":
        return (lambda: F.FunctionExpVar()), "positive_away", None, 1
    if name == "FunctionG":
        return (lambda: F.FunctionG(d)), "unit", [[0.5] for _ in range(d)], 1
    if name == "FunctionDiagonalDiscont":
        return (lambda: F.FunctionDiagonalDiscont()), "unit_exact", None, 1
    if name == "FunctionCompose":
        c1, c2 = pos(), [rng.uniform(-2, 2) for _ in range(d)]
        w1, w2 = rng.uniform(-2, 2), rng.uniform(-2, 2)
        return (lambda: F.FunctionCompose([(F.GenzGaussian(midpoint=mid, coefficients=c1), w1),
                                           (F.FunctionMultilinear(c2), w2)])), "any", None, 1
    if name == "FunctionShift":
        c = pos()
        sh = [rng.uniform(-1, 1) for _ in range(d)]
        return (lambda: F.FunctionShift(F.GenzGaussian(midpoint=mid, coefficients=c),
                                        lambda x: [xi + s for xi, s in zip(x, sh)])), "any", None, 1
    if name == "LambdaFunction":
        w = rng.uniform(0.5, 3)
        return (lambda: F.LambdaFunction(lambda x: math.cos(w * x[0]), lambda x: math.sin(w * x[0]) / w)), "any1d", None, 1
    raise KeyError(name)


INTEGRAL_CLASSES = ["ConstantValue", "FunctionLinear", "FunctionMultilinear", "FunctionPolynomial", "Polynomial1d",
                    "GenzCornerPeak", "GenzProductPeak", "GenzOszillatory", "GenzDiscontinious", "GenzDiscontinious2",
                    "GenzC0", "GenzGaussian", "FunctionExpVar", "FunctionG", "FunctionDiagonalDiscont", "FunctionCompose",
                    "FunctionShift", "LambdaFunction"]
HISTORY_EXTRA = ["CustomFunction", "FunctionCustom", "FunctionConcatenate", "FunctionPower", "FunctionUQ2", "FunctionGShifted",
                 "CustomFunctionMixedTypes", "FunctionCustomMixedTypes"]


def make_history_function(name, d, rng):
    import sparseSpACE.Function as F
    if name in INTEGRAL_CLASSES:
        fac, dom, kinks, ol = make_function(name, d, rng)
        return fac, dom, ol
    if name == "CustomFunction":
        k = rng.randint(1, 3)
        ws = [rng.uniform(-1, 1) for _ in range(k)]
        return (lambda: F.CustomFunction(lambda x: [math.sin(w + sum(x)) for w in ws], output_length=k)), "any", k
    if name == "CustomFunctionMixedTypes":
        # user callables whose value is a python int at some points and a float at others (max(0, ...), indicator-like ramps)
        k = rng.randint(1, 3)
        ws = [rng.uniform(-0.5, 1.5) for _ in range(k)]
        return (lambda: F.CustomFunction(lambda x: [max(0, sum(x) - w) for w in ws], output_length=k)), "any", k
    if name == "FunctionCustomMixedTypes":
        ws = [rng.uniform(-0.5, 1.5) for _ in range(rng.randint(2, 3))]
        return (lambda: F.FunctionCustom([(lambda x, w=w: max(0, min(1, sum(x) - w))) for w in ws])), "any", len(ws)
    if name == "FunctionCustom":
        ws = [rng.uniform(-1, 1) for _ in range(rng.randint(2, 3))]
        return (lambda: F.FunctionCustom([(lambda x, w=w: math.cos(w * sum(x))) for w in ws])), "any", len(ws)
    if name == "FunctionConcatenate":
        c = [rng.uniform(0.5, 2) for _ in range(d)]
        m = [rng.uniform(0, 1) for _ in range(d)]
        return (lambda: F.FunctionConcatenate([F.GenzGaussian(m, c), F.GenzC0(c, m)])), "any", 2
    if name == "FunctionPower":
        c = [rng.uniform(0.5, 2) for _ in range(d)]
        m = [rng.uniform(0, 1) for _ in range(d)]
        return (lambda: F.FunctionPower(F.GenzGaussian(m, c), 2)), "any", 1
    if name == "FunctionUQ2":
        return (lambda: F.FunctionUQ2()), "any2d", 1
    if name == "FunctionGShifted":
        return (lambda: F.FunctionGShifted(d)), "unit", 1
    raise KeyError(name)


SPECIAL = {"values": []}


INT_POINTS = {"on": False}


def gen_int_point(rng, d, dom):
    # whole-number coordinates handed over as python ints: (1, 2) and (1.0, 2.0) are the same point (and the same cache key)
    if dom in ("unit", "unit_exact"):
        return tuple(rng.choice([0, 1]) for _ in range(d))
    if dom in ("positive", "positive_away"):
        return tuple(rng.choice([1, 2, 3]) for _ in range(d))
    return tuple(rng.choice([-2, -1, 0, 1, 2, 3]) for _ in range(d))


def gen_point(rng, d, dom, pool):
    if INT_POINTS["on"]:
        p = gen_int_point(rng, d, dom)
        pool.append(p)
        return p
    if pool and rng.random() < 0.35:
        return rng.choice(pool)
    if rng.random() < 0.08:
        p = gen_int_point(rng, d, dom)
        if rng.random() < 0.3 and d > 1:
            p = ((0.25 if dom in ("unit", "unit_exact") else float(p[0]) + 0.25),) + p[1:]     # ints and floats mixed in one point
        pool.append(p)
        return p
    if SPECIAL["values"] and rng.random() < 0.25:
        # coordinates exactly on the function's own break points (borders / mid points), others strictly below them
        sp = SPECIAL["values"]
        p = tuple(float(sp[k]) if rng.random() < 0.6 else float(sp[k]) - rng.uniform(0.01, 0.3) for k in range(d))
        pool.append(p)
        return p
    if dom in ("unit", "unit_exact"):
        p = tuple(rng.choice([0.0, 1.0, 0.5, rng.random(), rng.random()]) for _ in range(d))
    elif dom in ("positive", "positive_away"):
        p = tuple(rng.uniform(0.05, 2.0) for _ in range(d))
    else:
        p = tuple(rng.choice([rng.uniform(-2, 2), rng.random(), 0.0, 0.5]) for _ in range(d))
    pool.append(p)
    return p


def _rel_close(v, e):
    v = np.asarray(v, dtype=float)
    e = np.asarray(e, dtype=float)
    if v.shape != e.shape:
        return False
    return bool(np.all(np.abs(v - e) <= 1e-12 * np.maximum(1.0, np.abs(e))))


def run_history(case, res):
    rng = random.Random(case["seed"])
    name = rng.choice(INTEGRAL_CLASSES + HISTORY_EXTRA)
    d = rng.choice([1, 2, 2, 3, 4])
    if name in ("Polynomial1d", "LambdaFunction"):
        d = 1
    if name == "FunctionUQ2":
        d = 2
    fac, dom, ol = make_history_function(name, d, rng)
    f = fac()
    twin = fac()
    SPECIAL["values"] = []
    for attr in ("border", "midPoint", "midpoint", "midpoints"):
        v = getattr(f, attr, None)
        if v is not None and len(np.atleast_1d(v)) == d:
            SPECIAL["values"] = [float(x) for x in np.atleast_1d(v)]

    def truth(p):
        v = twin.eval(tuple(p))
        v = np.atleast_1d(np.asarray(v, dtype=float))
        return v
    res.check("output_length", f.output_length() == ol == len(truth(gen_point(rng, d, dom, []))), "C12_output_length",
              "%s: output_length() does not match the evaluation" % name)
    seen = set()
    cache_on = True
    pool = []
    kinds = []
    nbatch = nrep = 0
    n_ops = rng.randint(3, 14)
    for step in range(n_ops):
        r = rng.random()
        ctx = {"class": name, "d": d, "ops": kinds[-12:], "cache_on": cache_on}
        if r < 0.30:
            p = gen_point(rng, d, dom, pool)
            kinds.append("single")
            if p in seen:
                nrep += 1
            try:
                v = f(p)
            except UnboundLocalError as ex:
                res.check("nocache_single", False, "C12_nocache_single_call_unbound",
                          "%s: f(point) with caching deactivated raises %r" % (name, ex), ctx)
                return finish(res, name, d, kinds, nbatch, nrep)
            if not cache_on:
                res.check("nocache_single", True, "", "")
            seen.add(p)
            res.check("shape_single", isinstance(v, np.ndarray) and v.shape == (ol,), "C12_shape_single",
                      "%s: f(point) has shape %s, expected (%d,)" % (name, getattr(v, "shape", None), ol), ctx)
            res.check("value_single", _rel_close(v, truth(p)), "C12_value_single",
                      "%s: f(point) differs from a fresh eval at %s: %s vs %s" % (name, p, v, truth(p)), ctx)
            if isinstance(v, np.ndarray) and v.dtype.kind == "f" and rng.random() < 0.35:
                # the caller owns what it got: in-place arithmetic on the result must not reach the cache
                v *= -3.0
                v += 7.0
                kinds.append("mutate_single_result")
                res.count("caller_mutated_result")
        elif r < 0.55:
            n = rng.choice([1, 2, 3, 5, 9])
            int_batch = rng.random() < 0.15
            INT_POINTS["on"] = int_batch
            batch = [gen_point(rng, d, dom, pool) for _ in range(n)]
            INT_POINTS["on"] = False
            if rng.random() < 0.4 and n > 1:
                batch[-1] = batch[0]
            kinds.append("batch%d" % n)
            nbatch += 1
            nrep += sum(1 for p in batch if p in seen) + (len(batch) - len(set(batch)))
            form = rng.random()
            if int_batch and form < 0.6:
                v = f(np.array(batch))               # integer-typed array (dtype int64)
                kinds.append("batch_as_int_array")
                res.count("integer_typed_batch")
            elif int_batch:
                v = f(batch)                          # list of tuples of python ints
                kinds.append("batch_of_int_tuples")
                res.count("integer_typed_batch")
            elif form < 0.15:
                v = f([list(p) for p in batch])      # a batch does not have to be a list of tuples
                kinds.append("batch_as_lists")
            elif form < 0.3:
                v = f(np.array(batch, dtype=float))
                kinds.append("batch_as_array")
            else:
                v = f(batch)
            seen.update(batch)
            res.check("shape_batch", isinstance(v, np.ndarray) and v.shape == (n, ol), "C12_shape_batch",
                      "%s: f(batch of %d) has shape %s, expected (%d,%d)" % (name, n, getattr(v, "shape", None), n, ol), ctx)
            exp = np.array([truth(p) for p in batch])
            res.check("value_batch", _rel_close(v, exp), "C12_value_batch",
                      "%s: f(batch) differs from fresh evals" % name, dict(ctx, observed=v, expected=exp, batch=batch))
            if isinstance(v, np.ndarray) and v.dtype.kind == "f" and rng.random() < 0.35:
                v *= -3.0
                v += 7.0
                kinds.append("mutate_batch_result")
                res.count("caller_mutated_result")
        elif r < 0.62:
            kinds.append("empty")
            try:
                v = f([])
                ok = isinstance(v, np.ndarray) and v.shape == (0, ol)
                res.check("empty_batch", ok, "C12_empty_batch_shape",
                          "%s: f([]) returned %r, expected an array of shape (0,%d)" % (name, v, ol), ctx)
            except IndexError as ex:
                res.check("empty_batch", False, "C12_empty_batch_raises",
                          "%s: f([]) raises %r instead of returning shape (0,%d)" % (name, ex, ol), ctx)
        elif r < 0.78:
            shape3 = rng.random() < 0.4
            if shape3:
                n1, n2 = rng.randint(1, 3), rng.randint(1, 4)
                pts = [[gen_point(rng, d, dom, pool) for _ in range(n2)] for _ in range(n1)]
                arr = np.array(pts, dtype=float)
                kinds.append("vec3d")
                flat = [p for row in pts for p in row]
            else:
                n = rng.randint(1, 6)
                int_arr = rng.random() < 0.15
                INT_POINTS["on"] = int_arr
                flat = [gen_point(rng, d, dom, pool) for _ in range(n)]
                INT_POINTS["on"] = False
                arr = np.array(flat) if int_arr else np.array(flat, dtype=float)
                kinds.append("vec2d_int" if int_arr else "vec2d")
            v = np.asarray(f.eval_vectorized(arr), dtype=float)
            exp = np.array([truth(p) for p in flat]).reshape(arr.shape[:-1] + (ol,))
            try:
                vv = v.reshape(arr.shape[:-1] + (ol,))
                ok = _rel_close(vv, exp)
            except Exception:
                ok = False
            res.check("value_vectorized", ok, "C12_value_vectorized",
                      "%s: eval_vectorized differs from scalar eval (array shape %s)" % (name, arr.shape),
                      dict(ctx, observed=v, expected=exp))
        elif r < 0.86:
            kinds.append("reset")
            f.reset_dictionary()
            seen = set()
            res.check("counter", f.get_f_dict_size() == 0, "C12_counter_after_reset",
                      "%s: get_f_dict_size() != 0 right after reset_dictionary()" % name, ctx)
        elif r < 0.92 and cache_on:
            kinds.append("deactivate")
            f.deactivate_caching()
            cache_on = False
        else:
            kinds.append("size")
            if cache_on:
                res.check("counter", f.get_f_dict_size() == len(seen), "C12_counter",
                          "%s: get_f_dict_size()=%d but %d distinct points were evaluated since the last reset" % (
                              name, f.get_f_dict_size(), len(seen)), ctx)
            else:
                res.note("counter_with_cache_off_stores_batches" if f.get_f_dict_size() else "counter_with_cache_off_empty")
    return finish(res, name, d, kinds, nbatch, nrep)


def finish(res, name, d, kinds, nbatch, nrep):
    res.hash = digest([name, d, kinds])
    res.nontrivial = nbatch >= 1 and nrep >= 1
    res.states.add(name)
    res.sample = {"class": name, "d": d, "operations": kinds}


# ---- analytic integrals ---------------------------------------------------------------------------------
def gen_integration_box(rng, d, dom):
    if dom in ("unit", "unit_exact"):
        return [0.0] * d, [1.0] * d
    s, e = [], []
    for _ in range(d):
        if dom == "positive":
            lo = rng.uniform(0, 1.0)
        elif dom == "positive_away":
            lo = rng.uniform(0.05, 1.0)
        else:
            lo = rng.choice([0.0, rng.uniform(-1.5, 1.0), rng.uniform(0, 0.8)])
        w = rng.choice([1.0, rng.uniform(0.05, 1.5), rng.uniform(0.3, 3.0)]) if dom != "positive_away" else rng.uniform(0.05, 1.0)
        s.append(lo)
        e.append(lo + w)
    return s, e


def run_integral(case, res):
    rng = random.Random(case["seed"])
    name = rng.choice(INTEGRAL_CLASSES)
    d = rng.choice([1, 2, 2, 3])
    if name in ("Polynomial1d", "LambdaFunction"):
        d = 1
    fac, dom, kinks, ol = make_function(name, d, rng)
    f = fac()
    s, e = gen_integration_box(rng, d, dom)
    ctx = {"class": name, "d": d, "start": s, "end": e, "params": {k: v for k, v in vars(f).items()
                                                                 if k in ("coeffs", "coefficients", "midPoint", "midpoint", "border",
                                                                          "offset", "value", "degree")}}
    ana = f.getAnalyticSolutionIntegral(list(s), list(e))
    if name == "FunctionDiagonalDiscont":
        res.check("analytic_integral", ana is not None and abs(float(ana) - 1.0 / math.factorial(d)) < 1e-14,
                  "C12_integral:FunctionDiagonalDiscont", "analytic integral != 1/d!", ctx)
        res.hash = digest([name, d])
        res.nontrivial = False
        res.sample = ctx
        return
    # reference: sub-boxes split at kinks
    cuts = []
    cut_by_kink = False
    for k in range(d):
        c = [s[k], e[k]]
        if kinks is not None:
            for kk in kinks[k]:
                if s[k] < kk < e[k]:
                    c.append(kk)
                    cut_by_kink = True
        cuts.append(sorted(c))
    npts = 48 if d <= 2 else 32

    def point_eval(P):
        return np.array([np.atleast_1d(np.asarray(f.eval(tuple(p)), dtype=float)) for p in P])
    ref = np.zeros(ol)
    ref2 = np.zeros(ol)
    absref = np.zeros(ol)
    for cell in itertools.product(*[list(zip(c[:-1], c[1:])) for c in cuts]):
        cs = [c[0] for c in cell]
        ce = [c[1] for c in cell]
        ref = ref + rm.gauss_legendre_box(point_eval, cs, ce, npts)
        ref2 = ref2 + rm.gauss_legendre_box(point_eval, cs, ce, npts - 10)
        absref = absref + rm.gauss_legendre_box(lambda P: np.abs(point_eval(P)), cs, ce, npts)
    if not np.all(np.abs(ref - ref2) <= 1e-11 * np.maximum(absref, 1e-300)):
        # the reference quadrature itself has not converged on this box (sharp peak): no verdict for this case
        res.note("reference_quadrature_not_converged:" + name)
        res.hash = digest([name, d, s, e, "unconverged"])
        res.sample = ctx
        return
    if ana is None:
        res.check("analytic_integral", False, "C12_integral_returns_none:" + name,
                  "%s.getAnalyticSolutionIntegral returns None (reference %s)" % (name, ref), ctx)
    else:
        vol = float(np.prod(np.array(e) - np.array(s)))
        # absolute floor: closed forms built from differences of O(1) antiderivatives (erf, exp, powers) carry an absolute
        # rounding error relative to the function's natural scale, not to its (possibly tiny) integral over a far-tail box
        floor = 1e-13 * vol * max(1.0, float(np.max(absref)) / max(vol, 1e-300))
        res.close("analytic_integral", np.atleast_1d(np.asarray(ana, dtype=float)), ref, 1e-9 * absref + floor,
                  "C12_integral:" + name, "%s: analytic integral differs from the numerical integral of eval over %s..%s" % (name, s, e), ctx)
    unit = all(x == 0.0 for x in s) and all(x == 1.0 for x in e)
    res.hash = digest([name, d, s, e])
    res.nontrivial = (not unit) or cut_by_kink
    res.states.add(name)
    res.sample = dict(ctx, analytic=ana, reference=ref)


# ---- cache coherence after a real adaptive run -------------------------------------------------------------
def run_run(case, res):
    from sparseSpACE.spatiallyAdaptiveSingleDimension2 import SpatiallyAdaptiveSingleDimensions2
    from sparseSpACE.Grid import GlobalTrapezoidalGrid
    from sparseSpACE.GridOperation import Integration
    from sparseSpACE.ErrorCalculator import ErrorCalculatorSingleDimVolumeGuided
    rng = random.Random(case["seed"])
    name = rng.choice(["GenzCornerPeak", "GenzProductPeak", "GenzOszillatory", "GenzDiscontinious", "GenzC0", "GenzGaussian",
                       "FunctionExpVar", "FunctionLinear", "GenzDiscontinious2", "FunctionPolynomial"])
    d = rng.choice([2, 2, 3])
    fac, dom, kinks, ol = make_function(name, d, rng)
    f = fac()
    a, b = np.zeros(d), np.ones(d)
    boundary = rng.random() < 0.7
    grid = GlobalTrapezoidalGrid(a=a, b=b, boundary=boundary)
    op = Integration(f=f, grid=grid, dim=d, print_level=100, log_level=100)
    c = SpatiallyAdaptiveSingleDimensions2(a, b, operation=op, log_level=100, print_level=100)
    c.performSpatiallyAdaptiv(1, 2, ErrorCalculatorSingleDimVolumeGuided(), tol=-1.0, max_evaluations=rng.choice([30, 80, 200]),
                              do_plot=False, print_output=False)
    twin = fac()
    bad = []
    for p, v in f.f_dict.items():
        t = np.atleast_1d(np.asarray(twin.eval(p), dtype=float))
        if not _rel_close(np.atleast_1d(np.asarray(v, dtype=float)), t):
            bad.append((p, v, t))
    res.check("cache_coherence_after_run", not bad and len(f.f_dict) > 0, "C12_cache_incoherent_after_run",
              "%s: %d of %d cached values differ from a fresh evaluation after a dimension-wise run" % (name, len(bad), len(f.f_dict)),
              {"examples": bad[:3]})
    res.check("counter", f.get_f_dict_size() == len(set(f.f_dict.keys())), "C12_counter_after_run", "counter != distinct keys")
    res.hash = digest([name, d, boundary, len(f.f_dict)])
    res.nontrivial = True
    res.states.add(name)
    res.sample = {"class": name, "d": d, "boundary": boundary, "cached_points": len(f.f_dict)}


def crash_sig(case, ex, where, tb):
    return "C12_crash:%s@%s" % (type(ex).__name__, where)


def run_case(case, res):
    {"history": run_history, "integral": run_integral, "run": run_run}[case["gen"]](case, res)

RULE += (" " + 'User callables whose values are python ints at some points and floats at others.')
