"""C07 — extend-split areas tile the domain and each carries a valid local combination."""
import random

import numpy as np

from vlib import extsplit, hooks
from vlib.common import case_seed

RULE = ("seeded histories of the real extend-split strategy: d=2..4, start levels (1,2),(1,3),(2,3), coarsening versions 0-2, "
        "0..3 splits before extend, automatic extend/split on/off, single-dimension splitting on/off, boundary on/off, 8 box "
        "kinds, refinement driven by the real estimator or by seeded hostile error values (uniform/sparse/ties/single/hotspot/"
        "equal); oracle after every refine() (tiling, point assignment) and every evaluation (local coefficient sums, nodal "
        "reproduction of a hash-valued function). distinct = hash of the sorted leaf boxes with coarsening values; "
        "non-trivial = >=1 extend (lmax raise or coarsening decrease) and >=1 split beyond the initial one")
RULE += (" A quarter of the histories are continued by a second performSpatiallyAdaptiv(start levels, refinement_container=current refinement) for 1..3 further steps.")
REQUIRED = ["boxes_valid", "volumes_sum_to_domain", "disjoint_interiors", "coarsening_nonnegative", "assignment_exactly_once",
            "assignment_in_containing_leaf", "local_coefficient_sum", "local_nodal_reproduction", "same_point_list_object_reused"]
MIN_NONTRIVIAL = {"quick": 60, "thorough": 600}
CHUNK = {"quick": 8, "thorough": 40}
ASSUMPTIONS = ["d<=4; <=12 (d=2) / 7 (d=3) / 4 (d=4) refinement steps in the quick tier",
               "local grid points on leaf faces are used for the assignment clause only"]


def cases(tier, seed):
    n = 500 if tier == "quick" else 10000
    return [{"gen": "history", "seed": case_seed(seed, "C07", "history", i), "tier": tier} for i in range(n)]


class Obs(hooks.Observer):
    def __init__(self, res, f, cfg, err, rng):
        super().__init__(cfg["steps"], err, max_points=6000)
        self.res, self.f, self.cfg, self.rng = res, f, cfg, rng
        self.trace = []
        self.extends = 0
        self.splits = 0
        self._before = None
        self.fixed = None
        # in half of the histories nothing but the refinement itself happens between the last interpolation call on the fixed
        # list before a refinement and the first one after it (the monitors' own queries would otherwise refresh any cached state)
        self.quiet_between = rng.random() < 0.5

    def deepest(self, c):
        return 0

    def before_refine(self, c):
        super().before_refine(c)
        self._before = (len(extsplit.leaves(c)), list(c.lmax), sum(o.coarseningValue for o in extsplit.leaves(c)))

    def after_refine(self, c):
        super().after_refine(c)
        where = "after refine #%d" % self.steps
        extsplit.check_tiling(self.res, c, where)
        if not self.quiet_between:
            extsplit.check_assignment(self.res, c, extsplit.probe_points(c, self.rng), where)
        n, lmax, cs = self._before
        L = extsplit.leaves(c)
        if len(L) > n:
            self.splits += 1
        if list(c.lmax) != lmax or (len(L) == n and sum(o.coarseningValue for o in L) != cs):
            self.extends += 1
        self.trace.append({"step": self.steps, "leaves": len(L), "lmax": list(c.lmax),
                           "coarsening": sorted(set(int(o.coarseningValue) for o in L))})

    def after_evaluate(self, c, r):
        super().after_evaluate(c, r)
        where = "after evaluation #%d" % self.evals
        # the user evaluates the SAME list object of points after every step (as the evaluation_points option of the driver does), with no
        # other interpolation call in between: the answer must be the one a fresh list gets, i.e. the assignment to the CURRENT leaves
        v_same = np.asarray(c(self.fixed), dtype=float) if self.fixed is not None else None
        if self.evals == 1:
            extsplit.check_tiling(self.res, c, where)
        if self.evals == 1 or self.quiet_between:
            extsplit.check_assignment(self.res, c, extsplit.probe_points(c, self.rng), where)
        suffix = ":version12_lmin_gt1" if (self.cfg["version"] in (1, 2) and self.cfg["lmin"] > 1) else ""
        extsplit.check_local_combination(self.res, c, where, self.f if self.cfg["boundary"] else None, rng=self.rng, sigsuffix=suffix)
        if v_same is not None:
            v_fresh = np.asarray(c(list(self.fixed)), dtype=float)
            self.res.check("same_point_list_object_reused", np.array_equal(v_same, v_fresh), "extsplit_call_depends_on_list_identity" + suffix,
                           "%s: c(points) for the list object that was evaluated last before the refinement differs from c(copy of the list) "
                           "(max diff %.3g)" % (where, float(np.max(np.abs(v_same - v_fresh)))))
        if self.cfg["boundary"]:
            if self.fixed is None:
                a, b = np.array(c.a, dtype=float), np.array(c.b, dtype=float)
                self.fixed = [tuple(float(a[k] + self.rng.random() * (b[k] - a[k])) for k in range(c.dim)) for _ in range(40)]
                g = [a.copy()] + [np.minimum(np.maximum(a + (b - a) * t, a), b) for t in (0.125, 0.25, 0.5, 0.625)] + [b.copy()]
                self.fixed += [tuple(float(g[self.rng.randrange(6)][k]) for k in range(c.dim)) for _ in range(24)]
            c(self.fixed)    # last interpolation call before the next refinement


def run_case(case, res):
    rng = random.Random(case["seed"])
    cfg = extsplit.gen_config(rng, case.get("tier", "quick"), versions=(0, 0, 1, 2))
    d = cfg["d"]
    if rng.random() < 0.12:
        # an integer-valued function (labels / counts): eval() returns an integer-typed array
        f = hooks.VFunction([hooks.comp_int_hash(case["seed"]), hooks.comp_int_hash(case["seed"] + 1)], integer_valued=True)
        res.count("integer_valued_function")
    elif rng.random() < 0.1:
        # the same kind of function at a magnitude of 1e-9 / 1e-12 (interpolation is linear; nothing may be rounded to zero)
        fs = rng.choice([1e-9, 1e-12])
        f = hooks.VFunction([(lambda q, g=hooks.comp_hash(case["seed"]): fs * g(q)), (lambda q, g=hooks.comp_peak([0.3] * d, 0.2): fs * g(q))])
        f.magnitude = fs
        res.count("function_magnitude_tiny")
    else:
        f = hooks.VFunction([hooks.comp_hash(case["seed"]), hooks.comp_peak([0.3] * d, 0.2)])
    err = extsplit.make_err(cfg)
    res.sample = {"config": cfg}
    obs = Obs(res, f, cfg, err if cfg["profile"] != "real" else None, rng)
    c = extsplit.build(cfg, f, obs)
    extsplit.run(c, cfg, err)
    if rng.random() < 0.25 and obs.steps >= 1:
        # the documented way to go on from an existing refinement: a second performSpatiallyAdaptiv with the ORIGINAL
        # start levels and refinement_container=<current refinement>; the monitors keep watching the continued history
        obs.max_steps = obs.steps + rng.randint(1, 3)
        cfg["restarted_with_refinement_container"] = True
        res.count("restarts_with_refinement_container")
        extsplit.run(c, cfg, err, refinement_container=c.refinement)
    res.hash = extsplit.structure_digest(c)
    res.nontrivial = obs.extends >= 1 and obs.splits >= 1
    res.count("extends", obs.extends)
    res.count("splits", obs.splits)
    res.count("refine_steps", obs.steps)
    res.states.add(res.hash)
    res.sample = {"config": cfg, "steps_done": obs.steps, "extends": obs.extends, "splits": obs.splits, "trace": obs.trace[:8]}


def crash_sig(case, ex, where, tb):
    rng = random.Random(case["seed"])
    cfg = extsplit.gen_config(rng, case.get("tier", "quick"), versions=(0, 0, 1, 2))
    if cfg["automatic"] and not cfg["boundary"] and isinstance(ex, AssertionError):
        return "extsplit_crash:automatic_extend_split_without_boundary_points:%s" % where.split(":")[-1]
    return None

RULE += (" " + 'In half of the histories no monitor query happens between the last call on the fixed point list before a refinement and the first after it; evaluation lists contain repeated points; integer-valued functions; typed / integer domains.')
