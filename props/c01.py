"""C01 — adaptive combination scheme is always a valid inclusion-exclusion scheme."""
import itertools
import random

import numpy as np

from vlib import refmodels as rm
from vlib.common import case_seed, digest

RULE = ("seeded histories of update_adaptive_combi requests (55% active index with 4 selection biases, 15% old "
        "index, 15% forward neighbour of an active index, 15% arbitrary vectors) on CombiScheme(d), d=1..5, "
        "lmin=0..3, lmax-lmin=0..4; plus closed-form vs fresh-adaptive comparison for all d<=5, lmax-lmin<=5; plus "
        "exhaustive enumeration of all request sequences of small spaces. distinct = distinct final (old,active) "
        "pair; non-trivial = at least one successful refinement (index set changed)")
RULE += (" Histories contain re-initialisations of the SAME CombiScheme object (same or other levels) after refinements; the result must be the standard truncated scheme of those levels.")
REQUIRED = ["index_set_invariant", "coefficient_oracle", "nonrefinable_no_change", "closed_form_equals_fresh"]
MIN_NONTRIVIAL = {"quick": 200, "thorough": 2000}
CHUNK = {"quick": 150, "thorough": 1500}
ASSUMPTIONS = ["oracle = dominating-sum characterisation evaluated on the whole box [lmin, max(I)+1]^d",
               "histories are finite (<= 40 requests quick, <= 80 thorough); d <= 5"]


def cases(tier, seed):
    out = []
    n = 2500 if tier == "quick" else 60000
    for i in range(n):
        out.append({"gen": "history", "seed": case_seed(seed, "C01", "history", i)})
    for d in range(1, 6):
        for lmin in range(0, 4):
            for diff in range(0, 6):
                if d == 5 and diff > 4:
                    continue
                out.append({"gen": "closed", "seed": 0, "d": d, "lmin": lmin, "lmax": lmin + diff})
    # exhaustive small spaces: every request sequence over the candidate vectors up to given length
    ex = [(1, 0, 0, 4), (1, 1, 2, 4), (2, 0, 0, 3), (2, 1, 1, 3), (2, 1, 2, 3), (2, 0, 1, 3), (3, 1, 1, 2), (3, 0, 1, 2)]
    if tier == "thorough":
        ex += [(2, 1, 3, 4), (2, 2, 4, 4), (3, 1, 2, 3), (3, 0, 2, 3), (4, 1, 2, 2), (2, 0, 2, 5)]
    for d, lmin, lmax, length in ex:
        out.append({"gen": "exhaustive", "seed": 0, "d": d, "lmin": lmin, "lmax": lmax, "length": length})
    return out


def _scheme_list(cs, **kw):
    return [(tuple(int(x) for x in g.levelvector), g.coefficient) for g in cs.getCombiScheme(do_print=False, **kw)]


def judge(res, cs, d, lmin, where):
    """All invariants of the statement on the live object."""
    old = set(cs.old_index_set)
    active = set(cs.active_index_set)
    I = set(cs.get_index_set())
    ok = res.check("index_set_invariant", I == (old | active), "index_set_union",
                   "get_index_set() != old | active at %s" % where)
    probs = rm.index_set_problems(old, active, lmin, d)
    res.check("index_set_invariant", not probs, "index_set:" + (probs[0][0] if probs else ""),
              "index set invariant broken at %s: %s" % (where, probs[:3]),
              {"old": sorted(old), "active": sorted(active), "lmin": lmin, "problems": probs[:5]})
    scheme = _scheme_list(cs)
    cprobs = rm.coefficient_problems(old | active, scheme, lmin, d)
    res.check("coefficient_oracle", not cprobs, "coefficients:" + (cprobs[0][0] if cprobs else ""),
              "coefficients are not the inclusion-exclusion coefficients at %s: %s" % (where, cprobs[:3]),
              {"old": sorted(old), "active": sorted(active), "scheme": scheme, "problems": cprobs[:5]})
    return not probs and not cprobs and ok


def run_history(case, res):
    from sparseSpACE.combiScheme import CombiScheme
    rng = random.Random(case["seed"])
    d = rng.choice([1, 2, 2, 3, 3, 4, 5])
    lmin = rng.choice([0, 1, 1, 2, 3])
    diff = rng.choice([0, 1, 1, 2, 2, 3, 4]) if d < 5 else rng.choice([0, 1, 2, 3])
    lmax = lmin + diff
    length = rng.randint(1, 40 if case.get("tier") != "thorough" else 80)
    bias = rng.choice(["uniform", "dim0", "maxnorm", "minnorm", "uniform"])
    cs = CombiScheme(d)
    cs.init_adaptive_combi_scheme(lmax, lmin)
    model = rm.SchemeModel(d, lmin, lmax)
    res.check("fresh_equals_standard", set(cs.get_index_set()) == rm.standard_index_set(d, lmin, lmax)
              and set(cs.active_index_set) == rm.standard_active_set(d, lmin, lmax), "fresh_not_standard",
              "freshly initialised index sets differ from the standard truncated scheme",
              {"d": d, "lmin": lmin, "lmax": lmax, "old": sorted(cs.old_index_set), "active": sorted(cs.active_index_set)})
    judge(res, cs, d, lmin, "init")
    trace = []
    refined = 0
    for step in range(length):
        if refined and rng.random() < 0.06:
            # the same object is initialised again (same or other levels): the result must be the FRESH scheme of those levels
            if rng.random() < 0.5:
                lmin = rng.choice([0, 1, 1, 2, 3])
                lmax = lmin + rng.choice([0, 1, 1, 2, 3])
            cs.init_adaptive_combi_scheme(lmax, lmin)
            model = rm.SchemeModel(d, lmin, lmax)
            res.check("reinit_equals_standard", set(cs.get_index_set()) == rm.standard_index_set(d, lmin, lmax)
                      and set(cs.active_index_set) == rm.standard_active_set(d, lmin, lmax), "reinitialised_not_standard",
                      "index sets after a second init_adaptive_combi_scheme(%d, %d) on a used object differ from the standard truncated scheme" % (lmax, lmin),
                      {"d": d, "lmin": lmin, "lmax": lmax, "old": sorted(cs.old_index_set), "active": sorted(cs.active_index_set), "trace": trace[-6:]})
            judge(res, cs, d, lmin, "re-init at step %d" % step)
            trace.append(["reinit", [lmax, lmin], None])
        r = rng.random()
        active = sorted(cs.active_index_set)
        old = sorted(cs.old_index_set)
        if r < 0.55 or not old:
            if bias == "dim0":
                m = max(a[0] for a in active)
                cand = [a for a in active if a[0] == m]
            elif bias == "maxnorm":
                m = max(sum(a) for a in active)
                cand = [a for a in active if sum(a) == m]
            elif bias == "minnorm":
                m = min(sum(a) for a in active)
                cand = [a for a in active if sum(a) == m]
            else:
                cand = active
            v = rng.choice(cand)
            kind = "active"
        elif r < 0.70:
            v = rng.choice(old)
            kind = "old"
        elif r < 0.85:
            a = rng.choice(active)
            k = rng.randrange(d)
            v = a[:k] + (a[k] + 1,) + a[k + 1:]
            kind = "forward"
        else:
            v = tuple(rng.randint(lmin - 2, lmax + 3) for _ in range(d))
            kind = "arbitrary"
        before = (set(cs.old_index_set), set(cs.active_index_set), sorted(_scheme_list(cs)))
        was_active = tuple(v) in cs.active_index_set
        form = rng.random()
        if form < 0.4:
            arg = list(v)
        elif form < 0.8:
            arg = tuple(v)
        elif form < 0.9:
            arg = np.array(v, dtype=np.int64)          # level vectors come out of numpy arithmetic in the adaptive drivers
        else:
            arg = tuple(np.int64(x) for x in v)
        ret = cs.update_adaptive_combi(arg)
        mret = model.update(v)
        after = (set(cs.old_index_set), set(cs.active_index_set), sorted(_scheme_list(cs)))
        trace.append([kind, list(v), ret])
        if not was_active:
            res.check("nonrefinable_no_change", before == after and not ret, "nonrefinable_changed_state",
                      "request on non-active vector %s (%s) changed the scheme or returned %r" % (v, kind, ret),
                      {"before": before, "after": after, "trace": trace})
        else:
            refined += 1
            res.check("refined_moves_to_old", tuple(v) in cs.old_index_set and tuple(v) not in cs.active_index_set,
                      "refined_not_moved", "refined index %s not moved from active to old" % (v,), {"trace": trace})
            # returned dims <-> forward neighbours added
            added = after[1] - before[1]
            exp_dims = sorted(k for k in range(d) if v[:k] + (v[k] + 1,) + v[k + 1:] in added)
            res.check("return_value", sorted(ret or []) == exp_dims and len(added) == len(exp_dims),
                      "return_value", "returned dims %r but active set gained %s" % (ret, sorted(added)), {"trace": trace})
        if (model.old, model.active) == (after[0], after[1]) and (mret or None) == (ret or None):
            res.note("model_agreement")
        else:
            res.note("model_disagreement")
        judge(res, cs, d, lmin, "step %d after %s %s" % (step, kind, v))
    res.hash = digest([sorted(cs.old_index_set), sorted(cs.active_index_set)])
    res.nontrivial = refined > 0
    res.states.add(res.hash)
    res.sample = {"d": d, "lmin": lmin, "lmax": lmax, "bias": bias, "requests": trace[:12], "n_requests": len(trace),
                  "final_index_set_size": len(cs.get_index_set())}


def run_closed(case, res):
    from sparseSpACE.combiScheme import CombiScheme
    d, lmin, lmax = case["d"], case["lmin"], case["lmax"]
    closed = _scheme_list(CombiScheme(d), lmin=lmin, lmax=lmax)
    cs = CombiScheme(d)
    cs.init_adaptive_combi_scheme(lmax, lmin)
    fresh = _scheme_list(cs)
    dc, df = dict(closed), dict(fresh)
    ok = len(dc) == len(closed) and {k: float(v) for k, v in dc.items()} == {k: float(v) for k, v in df.items()}
    res.check("closed_form_equals_fresh", ok, "closed_form_differs",
              "closed-form scheme differs from freshly initialised adaptive scheme for d=%d lmin=%d lmax=%d" % (d, lmin, lmax),
              {"closed": sorted(closed), "fresh": sorted(fresh)})
    I = rm.standard_index_set(d, lmin, lmax)
    cp = rm.coefficient_problems(I, closed, lmin, d)
    res.check("coefficient_oracle", not cp, "closed_form_coefficients:" + (cp[0][0] if cp else ""),
              "closed-form coefficients are not inclusion-exclusion coefficients: %s" % cp[:3], {"scheme": closed})
    mob = rm.incl_excl_coefficients(I, d)
    res.check("moebius_form", {k: float(v) for k, v in mob.items()} == {k: float(v) for k, v in df.items()},
              "moebius_differs", "adaptive coefficients differ from the Moebius formula", {"fresh": sorted(fresh)})
    judge(res, cs, d, lmin, "init")
    res.hash = digest(["closed", d, lmin, lmax])
    res.nontrivial = lmax > lmin and d > 1
    res.sample = {"d": d, "lmin": lmin, "lmax": lmax, "scheme": sorted(closed)[:10]}


def run_exhaustive(case, res):
    """All request sequences of given length over: every index of the reachable region + a few outsiders."""
    from sparseSpACE.combiScheme import CombiScheme
    import copy
    d, lmin, lmax, length = case["d"], case["lmin"], case["lmax"], case["length"]
    seen = set()
    cs0 = CombiScheme(d)
    cs0.init_adaptive_combi_scheme(lmax, lmin)
    frontier = [cs0]
    judge(res, cs0, d, lmin, "init")
    nstates = 0
    for depth in range(length):
        nxt = []
        for cs in frontier:
            cands = set(cs.active_index_set) | set(list(cs.old_index_set)[:2])
            a0 = sorted(cs.active_index_set)[0]
            cands.add(a0[:0] + (a0[0] + 1,) + a0[1:])
            cands.add(tuple([lmin - 1] * d))
            for v in sorted(cands):
                c2 = copy.deepcopy(cs)
                was_active = v in c2.active_index_set
                before = (set(c2.old_index_set), set(c2.active_index_set))
                ret = c2.update_adaptive_combi(list(v))
                key = (frozenset(c2.old_index_set), frozenset(c2.active_index_set))
                if not was_active:
                    res.check("nonrefinable_no_change", before == (set(c2.old_index_set), set(c2.active_index_set)) and not ret,
                              "nonrefinable_changed_state", "non-active request %s changed the scheme" % (v,),
                              {"before": before})
                    continue
                if key in seen:
                    continue
                seen.add(key)
                nstates += 1
                judge(res, c2, d, lmin, "exhaustive depth %d request %s" % (depth, v))
                nxt.append(c2)
        frontier = nxt
    res.count("exhaustive_states", nstates)
    res.hash = digest(["exh", d, lmin, lmax, length])
    res.nontrivial = nstates > 0
    for k in list(seen)[:64]:
        res.states.add(digest([sorted(k[0]), sorted(k[1])]))
    res.sample = {"d": d, "lmin": lmin, "lmax": lmax, "sequence_length": length, "distinct_states": nstates}


def run_case(case, res):
    {"history": run_history, "closed": run_closed, "exhaustive": run_exhaustive}[case["gen"]](case, res)

RULE += (" " + 'Update requests are passed as lists, tuples, numpy integer arrays and tuples of numpy integers.')
