"""C08 — local tensor quadrature grids honour their exactness and point contracts."""
import itertools
import random

import numpy as np

from vlib import hooks
from vlib import refmodels as rm
from vlib.common import case_seed, digest

RULE = ("each local grid family (Trapezoidal boundary on/off, Simpson, Clenshaw-Curtis, Leja, Gauss-Legendre, Lagrange p=1..4, "
        "B-spline p=1,3,5) is driven through setCurrentArea / get_points_and_weights / levelToNumPoints / integrate on generated "
        "(d=1..3, anisotropic level vectors 0..5, domain kind, sub-box = dyadic descendant of the domain touching 0/1/2 global faces "
        "per dimension, or arbitrary interior box). Oracle: announced count = returned count, points inside the sub-box, weight sum = "
        "volume (nodal families), exact integration of shifted tensor Legendre polynomials up to the nominal degree, and for the "
        "trapezoid family boundary-off = boundary-on minus exactly the points on the global boundary. distinct = digest(family, "
        "levels, box); non-trivial = sub-box != domain or anisotropic level vector")
RULE += (" " + 'The grid object carries a history of 0..3 earlier setCurrentArea/get_points_and_weights calls on other boxes (incl. boxes glued to the global boundary), as the strategies reuse one object.')
RULE += (" In a third of the cases a sibling grid object of the same family with the opposite boundary flag / another order is used first on the same boxes (class-level state must not leak between objects).")
RULE += (" Domain and sub-box are handed over as float arrays, lists, tuples and - on whole-number boxes - as python ints or integer-typed arrays.")
RULE += (" Trapezoidal grids are also run with per-dimension boundary flags (set_boundaries) on a grid object that is used twice.")
REQUIRED = ["count_matches", "points_inside", "weight_sum_is_volume", "polynomial_exactness", "trapezoid_boundary_off_consistent"]
MIN_NONTRIVIAL = {"quick": 800, "thorough": 10000}
CHUNK = {"quick": 120, "thorough": 1000}
ASSUMPTIONS = ["non-trapezoidal families are exercised with boundary points (their default)", "Leja levels <= 3 (points are found by fmin)",
               "degrees: trapezoid 1, Simpson 3 (n>=3), CC/Leja n-1, Gauss-Legendre 2n-1, Lagrange/B-spline min(p, n-1)"]

FAMILIES = ["Trapezoidal", "TrapezoidalNB", "Simpson", "ClenshawCurtis", "Leja", "GaussLegendre", "Lagrange", "BSpline"]


def cases(tier, seed):
    n = 2600 if tier == "quick" else 60000
    return [{"gen": "grid", "seed": case_seed(seed, "C08", "grid", i)} for i in range(n)]


def subbox(rng, a, b):
    """dyadic descendant (same midpoint arithmetic as the strategies) or arbitrary interior box; per dimension"""
    s, e = [], []
    for ak, bk in zip(a, b):
        r = rng.random()
        if r < 0.3:
            lo, hi = ak, bk
        elif r < 0.8:
            lo, hi = ak, bk
            for _ in range(rng.randint(1, 4)):
                m = 0.5 * (lo + hi)
                if rng.random() < 0.5:
                    hi = m
                else:
                    lo = m
        else:
            w = bk - ak
            lo = ak + rng.uniform(0.05, 0.6) * w
            hi = lo + rng.uniform(0.05, 0.35) * w
        s.append(lo)
        e.append(hi)
    return s, e


def make_grid(family, a, b, p, mode="float_array"):
    import sparseSpACE.Grid as G
    a, b = hooks.typed(a, mode), hooks.typed(b, mode)
    if family == "Trapezoidal":
        return G.TrapezoidalGrid(a, b, boundary=True)
    if family == "TrapezoidalNB":
        return G.TrapezoidalGrid(a, b, boundary=False)
    if family == "Simpson":
        return G.SimpsonGrid(a, b)
    if family == "ClenshawCurtis":
        return G.ClenshawCurtisGrid(a, b)
    if family == "Leja":
        return G.LejaGrid(a, b)
    if family == "GaussLegendre":
        return G.GaussLegendreGrid(a, b)
    if family == "Lagrange":
        return G.LagrangeGrid(a, b, boundary=True, p=p)
    return G.BSplineGrid(a, b, boundary=True, p=p)


def nominal_degree(family, n, p):
    if family in ("Trapezoidal", "TrapezoidalNB"):
        return 1
    if family == "Simpson":
        return 3 if n >= 3 else 1
    if family in ("ClenshawCurtis", "Leja"):
        return n - 1
    if family == "GaussLegendre":
        return 2 * n - 1
    return min(p, n - 1)


def run_case(case, res):
    rng = random.Random(case["seed"])
    family = rng.choice(FAMILIES)
    d = rng.choice([1, 2, 2, 3])
    p = rng.choice([1, 2, 3, 4]) if family == "Lagrange" else rng.choice([1, 3, 5])
    maxl = {"Leja": 3, "GaussLegendre": 4, "Lagrange": 4, "BSpline": 4}.get(family, 5)
    if d == 3:
        maxl = min(maxl, 3)
    lv = [rng.randint(0, maxl) for _ in range(d)]
    if family in ("Lagrange", "BSpline") and d >= 2:
        lv = [min(l, 3) for l in lv]
    kind, a, b = hooks.gen_box(rng, d, ["unit", "unit", "shifted", "negative", "aniso", "dyadic", "tiny", "huge", "integer"])
    s, e = subbox(rng, a, b)
    # how the caller hands over a, b, start, end: float arrays (default), or lists / tuples / integer-typed values
    mode = "float_array"
    if kind == "integer":
        mode = rng.choice(hooks.INPUT_MODES)
        s, e = list(a), list(b)
        for k in range(d):      # sub-boxes with whole-number corners: halve while the width stays even
            while e[k] - s[k] >= 2 and rng.random() < 0.5:
                m = 0.5 * (s[k] + e[k])
                if rng.random() < 0.5:
                    e[k] = m
                else:
                    s[k] = m
    elif rng.random() < 0.15:
        mode = rng.choice(["float_list", "float_tuple", "int_list"])
    if mode != "float_array":
        res.count("box_given_as_" + mode)
    cfg = {"family": family, "d": d, "p": p if family in ("Lagrange", "BSpline") else None, "levels": lv, "a": a, "b": b,
           "start": s, "end": e, "box": kind}
    cfg["input_mode"] = mode
    res.sample = {"config": cfg}
    grid = make_grid(family, a, b, p, mode)
    # the strategies reuse ONE grid object for all sub-boxes: the observed call is preceded by a history of other boxes/levels
    nprev = rng.choice([0, 0, 1, 2, 3])
    for _ in range(nprev):
        ps, pe = subbox(rng, a, b)
        if rng.random() < 0.4:   # boxes glued to the lower / upper global boundary
            for k in range(d):
                wdt = pe[k] - ps[k]
                if rng.random() < 0.5:
                    ps[k], pe[k] = a[k], a[k] + wdt
                elif rng.random() < 0.3:
                    ps[k], pe[k] = b[k] - wdt, b[k]
        plv = [rng.randint(0 if family != "TrapezoidalNB" else 1, min(3, maxl)) for _ in range(d)]
        try:
            grid.setCurrentArea(np.array(ps), np.array(pe), plv)
            grid.get_points_and_weights()
        except Exception:
            pass   # a failing history step is judged when it is the observed call of another case
        res.count("history_steps")
    cfg["history"] = nprev
    # other grid objects of the same family live in the same process (the strategies and the user create several): a sibling with
    # the opposite boundary flag / another order is used first on the same box and level (its own results are not judged here)
    if rng.random() < 0.35:
        import sparseSpACE.Grid as G
        sib = None
        try:
            aa, bb = np.array(a), np.array(b)
            if family in ("Trapezoidal", "TrapezoidalNB"):
                sib = G.TrapezoidalGrid(aa, bb, boundary=(family == "TrapezoidalNB"))
            elif family == "Simpson":
                sib = G.SimpsonGrid(aa, bb, boundary=False)
            elif family == "ClenshawCurtis":
                sib = G.ClenshawCurtisGrid(aa, bb, boundary=False)
            elif family == "Leja":
                sib = G.LejaGrid(aa, bb, boundary=False)
            elif family == "GaussLegendre":
                sib = G.GaussLegendreGrid(aa + 0.5 * (bb - aa), bb)
            elif family == "Lagrange":
                sib = G.LagrangeGrid(aa, bb, boundary=True, p=rng.choice([q for q in (1, 2, 3, 4) if q != p]))
            else:
                sib = G.BSplineGrid(aa, bb, boundary=True, p=rng.choice([q for q in (1, 3, 5) if q != p]))
            for (bs, be) in ((a, b), (s, e)):
                try:
                    sib.setCurrentArea(np.array(bs), np.array(be), [max(1, x) for x in lv] if rng.random() < 0.3 else list(lv))
                    sib.get_points_and_weights()
                except Exception:
                    pass
            res.count("sibling_objects_used_first")
            cfg["sibling_first"] = True
        except Exception:
            pass
    grid.setCurrentArea(hooks.typed(s, mode), hooks.typed(e, mode), lv)
    pts, w = grid.get_points_and_weights()
    pts = [tuple(float(x) for x in q) for q in pts]
    w = np.asarray(w, dtype=float)
    announced = [int(x) for x in grid.levelToNumPoints(lv)]
    nprod = int(np.prod(announced))
    res.check("count_matches", len(pts) == nprod == len(w), "C08_count:" + family,
              "%s announces %s = %d points, returns %d points and %d weights" % (family, announced, nprod, len(pts), len(w)), cfg)
    width = np.array(e) - np.array(s)
    if pts:
        P = np.array(pts)
        inside = np.all(P >= np.array(s) - 1e-12 * width, axis=0).all() and np.all(P <= np.array(e) + 1e-12 * width, axis=0).all()
        res.check("points_inside", bool(inside), "C08_points_outside:" + family, "%s returns points outside the sub-box" % family, cfg)
    vol = float(np.prod(width))
    nodal = family in ("Trapezoidal", "Simpson", "ClenshawCurtis", "Leja", "GaussLegendre")
    touches = [(s[k] == a[k], e[k] == b[k]) for k in range(d)]
    if nodal or (family == "TrapezoidalNB" and not any(t[0] or t[1] for t in touches)):
        res.close("weight_sum_is_volume", float(np.sum(w)), vol, 1e-12 * max(vol, float(np.sum(np.abs(w)))) * 8, "C08_weight_sum:" + family,
                  "%s: weights sum to %r, box volume %r" % (family, float(np.sum(w)), vol), cfg)
    # polynomial exactness
    if family != "TrapezoidalNB" or not any(t[0] or t[1] for t in touches):
        npts1d = [2 ** l + 1 for l in lv] if family != "Leja" else announced
        if family == "TrapezoidalNB":
            npts1d = announced
        degs = [nominal_degree(family, n, p) for n in npts1d]
        literal = None
        if family == "Lagrange" and any(degs[k] > lv[k] + 1 for k in range(d)):
            # hierarchical Lagrange functions of level l have at most l+2 knots: degree <= l+1 (see DESIGN, F16)
            literal = list(degs)
            degs = [min(degs[k], lv[k] + 1) for k in range(d)]
        multi = [tuple(degs), tuple([0] * d)]
        for _ in range(8):
            multi.append(tuple(rng.randint(0, dg) for dg in degs))
        multi = list(dict.fromkeys(multi))
        comps, exact = [], []
        for mi in multi:
            def g(x, mi=mi):
                v = 1.0
                for k in range(d):
                    v *= float(rm.legendre_shifted(mi[k], x[k], s[k], e[k])) + 0.5
                return v
            comps.append(g)
            ex = vol
            for k in range(d):
                ex *= 1.5 if mi[k] == 0 else 0.5
            exact.append(ex)
        # quadrature is linear: the same polynomials at a magnitude of 1e-9 / 1e-12 / 1e6 come out scaled by that factor
        fscale = 1.0 if rng.random() < 0.8 else rng.choice([1e-9, 1e-12, 1e6])
        if fscale != 1.0:
            comps = [(lambda q, g_=g_: fscale * g_(q)) for g_ in comps]
            res.count("integrand_magnitude_not_one")
        f = hooks.VFunction(comps)
        val = np.atleast_1d(np.asarray(grid.integrate(f, lv, hooks.typed(s, mode), hooks.typed(e, mode)), dtype=float)) / fscale
        if nodal or family == "TrapezoidalNB":
            scale = float(np.sum(np.abs(w))) * 1.5 ** d
        else:
            scale = vol * 1.5 ** d * 8
        cond = max(max(abs(s[k]), abs(e[k])) / width[k] for k in range(d))
        tol = (1e-11 + 1e-15 * cond * max(degs) ** 2) * max(scale, vol)
        res.close("polynomial_exactness", val, np.array(exact), tol, "C08_exactness:" + family + (":p%d" % p if family in ("Lagrange", "BSpline") else ""),
                  "%s does not integrate tensor Legendre polynomials of degrees <= %s exactly" % (family, degs),
                  dict(cfg, degrees=multi[:6]))
        if literal is not None:
            def g2(x):
                v = 1.0
                for k in range(d):
                    v *= float(rm.legendre_shifted(literal[k], x[k], s[k], e[k])) + 0.5
                return v
            val2 = np.atleast_1d(np.asarray(grid.integrate(hooks.VFunction([g2]), lv, hooks.typed(s, mode), hooks.typed(e, mode)), dtype=float))
            ex2 = vol
            for k in range(d):
                ex2 *= 1.5 if literal[k] == 0 else 0.5
            res.close("polynomial_exactness_literal_degree", val2, np.array([ex2]), tol,
                      "C08_exactness:Lagrange:degree_min_p_n-1_above_level_plus_1",
                      "Lagrange p=%d on %s points per dimension integrates degree %s (= level+1) but not the nominal min(p, n-1) = %s" % (
                          p, npts1d, degs, literal), cfg)
    # trapezoid: boundary off == boundary on minus the points on the global boundary
    if family in ("Trapezoidal", "TrapezoidalNB"):
        gon = make_grid("Trapezoidal", a, b, p, mode)
        goff = make_grid("TrapezoidalNB", a, b, p, mode)
        gon.setCurrentArea(hooks.typed(s, mode), hooks.typed(e, mode), lv)
        pon, won = gon.get_points_and_weights()
        goff.setCurrentArea(hooks.typed(s, mode), hooks.typed(e, mode), lv)
        poff, woff = goff.get_points_and_weights()
        don = {tuple(float(x) for x in q): float(ww) for q, ww in zip(pon, won)}
        doff = {tuple(float(x) for x in q): float(ww) for q, ww in zip(poff, woff)}
        expected = {q: ww for q, ww in don.items() if not any(q[k] == a[k] or q[k] == b[k] for k in range(d))}
        ok = expected == doff and len(doff) == len(poff)
        one_sided_l0 = any(lv[k] == 0 and (touches[k][0] != touches[k][1]) for k in range(d))
        res.check("trapezoid_boundary_off_consistent", ok, "C08_trapezoid_boundary_off" + (":level0_one_global_face" if one_sided_l0 else ""),
                  "boundary off is not boundary on minus exactly the points on the global boundary (on: %d, off: %d, expected %d)" % (
                      len(don), len(doff), len(expected)),
                  dict(cfg, extra=sorted(set(doff) - set(expected))[:4], missing=sorted(set(expected) - set(doff))[:4],
                       weight_diff=[(q, doff[q], expected[q]) for q in doff if q in expected and doff[q] != expected[q]][:4]))
        if d >= 2 and rng.random() < 0.6:
            # per-dimension boundary flags (Grid.set_boundaries) on ONE grid object that is used twice
            flags = [rng.random() < 0.5 for _ in range(d)]
            flags[0], flags[1] = (True, False) if rng.random() < 0.5 else (False, True)
            gmix = make_grid("Trapezoidal", a, b, p)
            gmix.set_boundaries(flags)
            try:
                ps_, pe_ = subbox(rng, a, b)
                gmix.setCurrentArea(np.array(ps_), np.array(pe_), [max(1, x) for x in lv])
                gmix.get_points_and_weights()
            except Exception:
                pass
            lvm = [max(1, x) for x in lv]
            gon.setCurrentArea(np.array(s), np.array(e), lvm)
            pon, won = gon.get_points_and_weights()
            don = {tuple(float(x) for x in q): float(ww) for q, ww in zip(pon, won)}
            gmix.setCurrentArea(np.array(s), np.array(e), lvm)
            pm, wm = gmix.get_points_and_weights()
            dm = {tuple(float(x) for x in q): float(ww) for q, ww in zip(pm, wm)}
            expm = {q: ww for q, ww in don.items() if not any((not flags[k]) and (q[k] == a[k] or q[k] == b[k]) for k in range(d))}
            announced_m = int(np.prod([int(x) for x in gmix.levelToNumPoints(lvm)]))
            res.check("per_dimension_boundary_flags", dm == expm and len(pm) == len(dm) == announced_m and list(gmix.get_boundaries()) == flags,
                      "C08_trapezoid_per_dimension_flags",
                      "per-dimension boundary flags %s (second use of the grid object): %d points returned, %d announced, %d expected; flags now %s" % (
                          flags, len(pm), announced_m, len(expm), list(gmix.get_boundaries())), dict(cfg, flags=flags))
    res.hash = digest(cfg)
    res.nontrivial = (s != list(a) or e != list(b)) or len(set(lv)) > 1
    res.states.add(family + str(lv))


def crash_sig(case, ex, where, tb):
    rng = random.Random(case["seed"])
    family = rng.choice(FAMILIES)
    return "C08_crash:%s:%s@%s" % (family, type(ex).__name__, where)

RULE += (" Integrands also at magnitudes 1e-12, 1e-9 and 1e6 (quadrature is linear).")
