"""C06 — refinement structures stay well formed under every refinement history."""
import random

from vlib import dimwise, hooks
from vlib.common import case_seed

RULE = ("same hostile dimension-wise engine as C03 (d=1..4, start levels, versions, rebalancing x safety factor, margins "
        "0.3/0.5/0.9/1.0, 9 benefit profiles incl. ties/zeros/single winners); before every refine() the intervals, their "
        "benefits and benefit_max are snapshotted, after it tiling / level agreement / binary-tree rule / coarsening identity "
        "/ lmax bound / margin selection / cursor state are asserted. distinct = hash of final (coordinate, level) sequences; "
        "non-trivial = >=1 rotation or >=1 lmax raise or a step in which the margin rule selected >=2 intervals")
RULE += (" " + 'Margins also 0.0 and unset (documented default 0.9); the selection threshold is computed from the margin that was CONFIGURED, not from the value read back from the object.')
RULE += (" A fifth of the histories are continued by a second performSpatiallyAdaptiv(start levels, refinement_container=current refinement) for 1..3 further steps.")
REQUIRED = ["tiling", "shared_point_levels", "binary_tree_rule", "coarsening_identity", "lmax_bounds_depth",
            "selection_rule", "children_replace_parent", "container_cursors"]
MIN_NONTRIVIAL = {"quick": 150, "thorough": 1500}
CHUNK = {"quick": 20, "thorough": 100}
ASSUMPTIONS = ["tree depth capped at 30 levels", "selection threshold recomputed with the same float expression as the code "
               "(benefit_max * margin)"]


def cases(tier, seed):
    n = 1200 if tier == "quick" else 30000
    return [{"gen": "history", "seed": case_seed(seed, "C06", "history", i), "tier": tier} for i in range(n)]


class Obs(hooks.Observer):
    def __init__(self, res, cfg, err):
        super().__init__(cfg["steps"], err)
        self.res = res
        self.cfg = cfg
        self.snap = None
        self.multi = 0
        self.trace = []

    def before_refine(self, c):
        super().before_refine(c)
        self.snap = dimwise.snapshot_selection(c, self.cfg["margin"])

    def on_rotation(self, c, d, before, after):
        self.res.count("rotation_observed")

    def after_refine(self, c):
        super().after_refine(c)
        where = "after refine #%d" % self.steps
        dimwise.check_structure(self.res, c, where)
        nsel = dimwise.check_selection(self.res, c, self.snap, where)
        if nsel >= 2:
            self.multi += 1
        self.trace.append({"step": self.steps, "selected": nsel, "lmax": list(c.lmax),
                           "levels_dim0": [list(o.levels) for o in c.refinement.get_refinement_container_for_dim(0).get_objects()][:24]})

    def after_evaluate(self, c, r):
        super().after_evaluate(c, r)
        if self.evals == 1:
            dimwise.check_structure(self.res, c, "after first evaluation")
        bens = [o.benefit for k in range(c.dim) for o in c.refinement.get_refinement_container_for_dim(k).get_objects()]
        self.res.check("benefits_defined", all(b is not None and b >= 0 for b in bens), "dimwise_benefit_undefined_or_negative",
                       "a benefit is None or negative after evaluation #%d" % self.evals)


def run_case(case, res):
    rng = random.Random(case["seed"])
    cfg = dimwise.gen_config(rng, case.get("tier", "quick"))
    d = cfg["d"]
    f = hooks.VFunction([hooks.comp_smooth(case["seed"], d)])
    err = hooks.RandErr(cfg["errseed"], cfg["profile"], d, cfg["a"], cfg["b"], scale=cfg.get("errscale", 1.0))
    obs = Obs(res, cfg, err)
    c = dimwise.build(cfg, f, obs)
    dimwise.maybe_prior_run(rng, c, cfg, err, res)
    dimwise.run(c, cfg, err)
    dimwise.maybe_restart(rng, c, cfg, err, obs, res)
    res.hash = dimwise.structure_digest(c)
    res.nontrivial = obs.lmax_raises > 0 or obs.rotations > 0 or obs.multi > 0
    res.count("lmax_raises", obs.lmax_raises)
    res.count("rotations", obs.rotations)
    res.count("multi_selection_steps", obs.multi)
    res.count("refine_steps", obs.steps)
    res.states.add(res.hash)
    res.sample = {"config": cfg, "steps_done": obs.steps, "rotations": obs.rotations, "lmax_raises": obs.lmax_raises,
                  "trace": obs.trace[:6]}

RULE += (" " + 'Error / benefit values at magnitudes 1e-12..1e9; typed, integer and mixed-scale domains; leading-dimension profile.')
