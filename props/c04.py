"""C04 — refinement never loses exactness the initial configuration had."""
import contextlib
import io
import itertools
import random

import numpy as np

from vlib import dimwise, extsplit, hooks
from vlib import refmodels as rm
from vlib.common import case_seed, digest

RULE = ("real adaptive histories of the three strategies with a vector-valued integrand: component 0 drives the refinement "
        "(smooth/peak/discontinuous/hash; real estimator in half of the cases, seeded hostile error values otherwise), the other "
        "components span the space the initial configuration is exact on: dimension-wise -> nodal hats of every level of the initial "
        "(lmin,lmax) index set (<=24 sampled) + random combinations + multilinear functions (boundary on); modified basis -> 1, x_k, "
        "random linear functions; extend-split (versions 0-2, all split/extend policies) and cell (lmin=lmax, unit cube) -> products "
        "and sums of 1-D linear functions. Integrals are compared with analytic values at EVERY evaluation, the interpolant at the "
        "end at random and grid points. distinct = digest(strategy, configuration, final structure); non-trivial = >=2 refinement "
        "steps")
RULE += (" Hostile profiles include 'fronts' (a steep front in every dimension: deep local refinement in all dimensions at once); the default coarsening version 6 is drawn in >= 40% of the dimension-wise cases.")
REQUIRED = ["dimwise_space_integral", "dimwise_space_interpolation", "dimwise_multilinear_integral", "dimwise_multilinear_interpolation",
            "modified_linear_integral", "extsplit_multilinear_integral", "extsplit_multilinear_interpolation", "cell_multilinear_integral"]
MIN_NONTRIVIAL = {"quick": 150, "thorough": 2000}
CHUNK = {"quick": 10, "thorough": 50}
ASSUMPTIONS = ["dimension-wise full-space assertions are strict until the first rebalancing rotation changes the level of an existing "
               "point; afterwards deviations are attributed to the known finding (rebalancing design) while multilinear functions stay strict",
               "cell strategy: unit cube only (its parent-cell arithmetic uses start*2^level)"]


FORCE_PROFILE = None


def cases(tier, seed):
    out = []
    for gen, n in (("dimwise", 420), ("modified", 90), ("extsplit", 220), ("cell", 50)):
        n = n if tier == "quick" else n * 15
        out += [{"gen": gen, "seed": case_seed(seed, "C04", gen, i), "tier": tier} for i in range(n)]
    return out


def driver_component(rng, d, seed, a, b):
    kind = rng.choice(["smooth", "peak", "discont", "hash"])
    w = [bk - ak for ak, bk in zip(a, b)]
    if kind == "smooth":
        g = hooks.comp_smooth(seed, d)
        return lambda p: g([(x - ak) / wk for x, ak, wk in zip(p, a, w)])
    if kind == "peak":
        c = [rng.uniform(0.1, 0.9) for _ in range(d)]
        g = hooks.comp_peak(c, rng.uniform(0.1, 0.4))
        return lambda p: g([(x - ak) / wk for x, ak, wk in zip(p, a, w)])
    if kind == "discont":
        c = [rng.uniform(0.3, 0.7) for _ in range(d)]
        g = hooks.comp_discont(c)
        return lambda p: g([(x - ak) / wk for x, ak, wk in zip(p, a, w)])
    return hooks.comp_hash(seed)


def multilinear_components(rng, d, a, b, n=3):
    """multilinear / linear functions with O(1) values, written in the normalised coordinate t=(x-a)/(b-a)"""
    comps, exact = [], []
    w = [bk - ak for ak, bk in zip(a, b)]
    vol = 1.0
    for wk in w:
        vol *= wk
    for _ in range(n):
        if rng.random() < 0.6:
            co = [(rng.uniform(-1, 2), rng.uniform(-2, 2)) for _ in range(d)]

            def g(p, co=co):
                v = 1.0
                for (al, be), x, ak, wk in zip(co, p, a, w):
                    v *= al + be * ((x - ak) / wk)
                return v
            e = vol
            for al, be in co:
                e *= al + be / 2.0
        else:
            c0 = rng.uniform(-2, 2)
            cs = [rng.uniform(-2, 2) for _ in range(d)]

            def g(p, c0=c0, cs=cs):
                return c0 + sum(ci * ((x - ak) / wk) for ci, x, ak, wk in zip(cs, p, a, w))
            e = vol * (c0 + sum(ci / 2.0 for ci in cs))
        comps.append(g)
        exact.append(e)
    return comps, exact


class ObsExact(hooks.Observer):
    def __init__(self, res, cfg, err, exact, groups, strategy, max_points=3000):
        super().__init__(cfg["steps"], err, max_points=max_points)
        self.res, self.cfg, self.exact, self.groups, self.strategy = res, cfg, np.array(exact, dtype=float), groups, strategy
        self.trace = []
        self.f = None
        self.P = []
        self.initial_interp_exact = None
        self.vol = float(np.prod(np.array(cfg["b"]) - np.array(cfg["a"])))
        a_, b_ = np.array(cfg["a"], dtype=float), np.array(cfg["b"], dtype=float)
        # conditioning of evaluating a level-lmax hat ((x-c)/h) in floating point on this box
        self.cond = float(np.max(np.maximum(np.abs(a_), np.abs(b_)) / ((b_ - a_) / 2 ** cfg["lmax"])))
        self.rot_at_eval = []

    def deepest(self, c):
        return super().deepest(c) if self.strategy in ("dimwise", "modified") else 0

    def after_evaluate(self, c, r):
        super().after_evaluate(c, r)
        where = "evaluation #%d" % self.evals
        got = np.array(c.operation.get_result(), dtype=float)
        nsch = sum(abs(g.coefficient) for g in c.scheme)
        for name, (idx, monitor, sig, scale_w) in self.groups.items():
            if not len(idx):
                continue
            rotated = self.rotations > 0
            s = sig
            mon = monitor
            if name == "space" and rotated:
                s = sig + ":after_rebalancing_rotation"
                mon = monitor + "_after_rotation"
            elif name == "space" and self.cfg.get("version") == 2 and self.cfg["d"] >= 2 and self.cfg["lmax"] - self.cfg["lmin"] >= 2:
                s = sig + ":version2_leveldiff_ge2"
            tol = (1e-12 + 4e-16 * self.cond) * nsch * self.vol * np.asarray(scale_w)
            self.res.close(mon, got[idx], self.exact[idx], tol, s,
                           "%s (%s): combined integral of a function of the initially exact space (%s) is no longer exact" % (where, self.strategy, name),
                           {"cfg": self.cfg, "rotations": self.rotations, "steps": self.steps})
        if self.evals == 1 and self.f is not None and self.strategy != "cell":
            self.initial_interp_exact = interp_exact_mask(c, self.f, self.cfg, self.P)
        self.trace.append({"eval": self.evals, "steps": self.steps, "rotations": self.rotations, "driver_integral": float(got[0])})


def probe_points(cfg, rng, n=64):
    a, b = np.array(cfg["a"], dtype=float), np.array(cfg["b"], dtype=float)
    return [tuple(float(a[k] + rng.random() * (b[k] - a[k])) for k in range(len(a))) for _ in range(n)]


def interp_exact_mask(c, f, cfg, P):
    """which output components does the configuration interpolate exactly (at the probe points) right now?"""
    a, b = np.array(cfg["a"], dtype=float), np.array(cfg["b"], dtype=float)
    with contextlib.redirect_stdout(io.StringIO()):
        vals = np.asarray(c(P))
    exp = np.array([f.eval(p) for p in P])
    nsch = sum(abs(g.coefficient) for g in c.scheme)
    cond = float(np.max(np.maximum(np.abs(a), np.abs(b)) / ((b - a) / 2 ** (cfg["lmax"] + 2))))
    tol = (1e-11 + 4e-15 * cond) * nsch * 64
    return np.max(np.abs(vals - exp), axis=0) <= tol


def check_interp(res, c, f, groups, cfg, rng, strategy, rotations, monitor_prefix, extra_points=(), P=None, initially_exact=None):
    a, b = np.array(cfg["a"], dtype=float), np.array(cfg["b"], dtype=float)
    d = len(a)
    P = list(P) if P is not None else probe_points(cfg, rng)
    P += list(extra_points)[:200]
    with contextlib.redirect_stdout(io.StringIO()):
        vals = np.asarray(c(P))
    exp = np.array([f.eval(p) for p in P])
    if strategy in ("dimwise", "modified") and d >= 2 and rng.random() < 0.5 and len(P) >= 4:
        # the tensor-grid entry point of the same interpolant: a small, deliberately unsymmetric grid of probe coordinates
        import itertools
        pick = rng.sample(P, 4)
        axes = [sorted(set(float(p[k]) for p in pick[:rng.randint(2, 4)])) for k in range(d)]
        with contextlib.redirect_stdout(io.StringIO()):
            gvals = np.asarray(c.interpolate_grid(axes))
        gpts = list(itertools.product(*axes))
        if gvals.shape[0] == len(gpts):
            vals = np.vstack([vals, gvals])
            exp = np.vstack([exp, np.array([f.eval(p) for p in gpts])])
            res.count("interpolate_grid_entry_point")
    nsch = sum(abs(g.coefficient) for g in c.scheme)
    hmin = np.array(cfg.get("hmin", (b - a) / 2 ** 12))
    cond = float(np.max(np.maximum(np.abs(a), np.abs(b)) / hmin))
    itol = 1e-12 + 4e-16 * cond
    for name, (idx, monitor, sig, scale_w) in groups.items():
        if not len(idx):
            continue
        scale_w = np.asarray(scale_w)
        if initially_exact is not None:
            keep = np.asarray(initially_exact)[idx]
            if not keep.all():
                res.note("interpolation_not_exact_initially:%s:%s" % (strategy, name), int((~keep).sum()))
            idx, scale_w = idx[keep], scale_w[keep]
            if not len(idx):
                continue
        s = sig.replace("integral", "interpolation")
        mon = monitor.replace("integral", "interpolation")
        if name == "space" and rotations > 0:
            s += ":after_rebalancing_rotation"
            mon += "_after_rotation"
        elif name == "space" and cfg.get("version") == 2 and cfg["d"] >= 2 and cfg["lmax"] - cfg["lmin"] >= 2:
            s += ":version2_leveldiff_ge2"
        res.close(mon, vals[:, idx], exp[:, idx], itol * nsch * np.asarray(scale_w)[None, :] * 4, s,
                  "%s: combined interpolant is no longer exact for functions of the initially exact space (%s)" % (strategy, name),
                  {"cfg": cfg, "rotations": rotations})


def min_width_dimwise(c):
    return [min(float(o.end) - float(o.start) for o in c.refinement.get_refinement_container_for_dim(k).get_objects())
            for k in range(c.dim)]


def run_dimwise(case, res, modified=False):
    rng = random.Random(case["seed"])
    cfg = dimwise.gen_config(rng, case.get("tier", "quick"), dims=(1, 2, 2, 3), max_steps=10,
                             box_kinds=["unit", "unit", "shifted", "negative", "aniso", "dyadic", "tiny", "huge"])
    if modified:
        cfg["boundary"] = False
    cfg["profile"] = rng.choice(["real", "real", "real", "uniform", "sparse", "ties", "hotspot", "altdim", "single", "fronts", "fronts",
                                 "leaddim", "leaddim"])
    if FORCE_PROFILE:
        cfg["profile"] = FORCE_PROFILE      # harness development aid (tools / probes); never set by the checks
    if cfg["profile"] == "leaddim":
        # strongly anisotropic histories: one (mostly later) dimension runs several levels ahead before the others follow
        cfg["steps"] = max(cfg["steps"], 7 if cfg["d"] <= 2 else 5)
        cfg["rebalancing"] = cfg["rebalancing"] and rng.random() < 0.3
        if rng.random() < 0.6 and cfg["d"] <= 3:
            cfg["lmin"], cfg["lmax"] = rng.choice([(1, 3), (1, 3), (2, 4), (1, 4)]) if cfg["d"] == 2 else (1, 3)
    if rng.random() < 0.4:
        cfg["version"] = 6          # the default coarsening version carries more weight than the alternatives
    if cfg["profile"] == "fronts":
        cfg["rebalancing"] = cfg["rebalancing"] and rng.random() < 0.5
        cfg["steps"] = max(cfg["steps"], 5 if cfg["d"] <= 2 else 4)
    d, a, b = cfg["d"], cfg["a"], cfg["b"]
    res.sample = {"config": cfg, "modified_basis": modified}
    comps = [driver_component(rng, d, case["seed"], a, b)]
    exact = [0.0]
    groups = {}
    if not modified:
        I = sorted(rm.standard_index_set(d, cfg["lmin"], cfg["lmax"]))
        hats = []
        for l in I:
            rngs = [range(0 if cfg["boundary"] else 1, 2 ** lk + (1 if cfg["boundary"] else 0)) for lk in l]
            for _ in range(3):
                hats.append((l, tuple(rng.choice(list(r_)) for r_ in rngs)))
        hats = list(dict.fromkeys(hats))
        if len(hats) > 24:
            hats = rng.sample(hats, 24)
        for l, idx in hats:
            comps.append(hooks.comp_hat_product(l, idx, a, b))
            exact.append(hooks.hat_product_integral(l, idx, a, b))
        ws = []
        for _ in range(3):
            w = [rng.uniform(-2, 2) for _ in hats]
            base = comps[1:1 + len(hats)]
            comps.append((lambda ww, bs: (lambda p: sum(wi * g(p) for wi, g in zip(ww, bs))))(w, base))
            exact.append(sum(wi * e for wi, e in zip(w, exact[1:1 + len(hats)])))
            ws.append(max(1.0, sum(abs(x) for x in w)))
        nsp = len(hats) + 3
        groups["space"] = (np.arange(1, 1 + nsp), "dimwise_space_integral", "C04_dimwise_space_integral", [1.0] * len(hats) + ws)
        if cfg["boundary"]:
            mc, me = multilinear_components(rng, d, a, b)
            comps += mc
            exact += me
            groups["multilinear"] = (np.arange(1 + nsp, 1 + nsp + len(mc)), "dimwise_multilinear_integral",
                                     "C04_dimwise_multilinear_integral", [8.0] * len(mc))
    else:
        comps.append(lambda p: 1.0)
        exact.append(float(np.prod(np.array(b) - np.array(a))))
        mc, me = multilinear_components(rng, d, a, b, n=0)
        w_ = [bk - ak for ak, bk in zip(a, b)]
        vol_ = float(np.prod(w_))
        for k in range(d):
            mc.append(lambda p, k=k: (p[k] - a[k]) / w_[k])
            me.append(vol_ / 2.0)
        for _ in range(3):
            c0 = rng.uniform(-2, 2)
            cs = [rng.uniform(-2, 2) for _ in range(d)]
            mc.append(lambda p, c0=c0, cs=cs: c0 + sum(ci * ((x - ak) / wk) for ci, x, ak, wk in zip(cs, p, a, w_)))
            me.append(vol_ * (c0 + sum(ci / 2.0 for ci in cs)))
        comps += mc
        exact += me
        groups["linear"] = (np.arange(1, len(comps)), "modified_linear_integral", "C04_modified_basis_linear_integral", [8.0] * (len(comps) - 1))
    f = hooks.VFunction(comps)
    err = hooks.RandErr(cfg["errseed"], cfg["profile"], d, a, b)
    obs = ObsExact(res, cfg, err, exact, groups, "modified" if modified else "dimwise")
    obs.f, obs.P = f, probe_points(cfg, rng)
    c = dimwise.build(cfg, f, obs, modified_basis=modified)
    dimwise.maybe_prior_run(rng, c, cfg, err, res)
    dimwise.run(c, cfg, err)
    cfg2 = dict(cfg, hmin=min_width_dimwise(c))
    # grid points of the combined grid as extra interpolation points
    gp = set()
    for g in c.scheme:
        gp.update(tuple(float(x) for x in p) for p in c.get_points_component_grid(g.levelvector))
    gp = sorted(gp)
    if len(gp) > 150:
        gp = rng.sample(gp, 150)
    check_interp(res, c, f, groups, cfg2, rng, "modified" if modified else "dimwise", obs.rotations, "", gp, P=obs.P,
                 initially_exact=obs.initial_interp_exact)
    res.hash = digest([cfg, dimwise.structure_digest(c), modified])
    res.nontrivial = obs.steps >= 2
    res.count("rotations", obs.rotations)
    res.count("refine_steps", obs.steps)
    res.states.add(dimwise.structure_digest(c))
    res.sample = {"config": cfg, "modified_basis": modified, "components": len(comps), "steps": obs.steps,
                  "rotations": obs.rotations, "trace": obs.trace[:6]}


def run_extsplit(case, res):
    rng = random.Random(case["seed"])
    cfg = extsplit.gen_config(rng, case.get("tier", "quick"), versions=(0, 1, 2), dims=(2, 2, 3, 3, 4), boundary_choices=(True,))
    cfg["steps"] = min(cfg["steps"], 8)
    d, a, b = cfg["d"], cfg["a"], cfg["b"]
    res.sample = {"config": cfg}
    comps = [driver_component(rng, d, case["seed"], a, b)]
    mc, me = multilinear_components(rng, d, a, b, n=5)
    comps += mc
    exact = [0.0] + me
    groups = {"multilinear": (np.arange(1, len(comps)), "extsplit_multilinear_integral", "C04_extsplit_multilinear_integral", [8.0] * len(mc))}
    f = hooks.VFunction(comps)
    err = extsplit.make_err(cfg)
    obs = ObsExact(res, cfg, err if cfg["profile"] != "real" else None, exact, groups, "extsplit", max_points=5000)
    obs.f, obs.P = f, probe_points(cfg, rng)
    c = extsplit.build(cfg, f, obs)
    with contextlib.redirect_stdout(io.StringIO()):
        extsplit.run(c, cfg, err)
    hmin = [min(float(o.end[k]) - float(o.start[k]) for o in extsplit.leaves(c)) / 2 ** c.lmax[0] for k in range(d)]
    check_interp(res, c, f, groups, dict(cfg, hmin=hmin), rng, "extsplit", 0, "", P=obs.P, initially_exact=obs.initial_interp_exact)
    res.hash = digest([cfg, extsplit.structure_digest(c)])
    res.nontrivial = obs.steps >= 2
    res.count("refine_steps", obs.steps)
    res.states.add(extsplit.structure_digest(c))
    res.sample = {"config": cfg, "steps": obs.steps, "leaves": len(extsplit.leaves(c)), "trace": obs.trace[:6]}


def run_cell(case, res):
    from sparseSpACE.spatiallyAdaptiveCell import SpatiallyAdaptiveCellScheme
    from sparseSpACE.Grid import TrapezoidalGrid
    from sparseSpACE.GridOperation import Integration
    from sparseSpACE.ErrorCalculator import ErrorCalculatorSurplusCell, ErrorCalculatorSurplusCellPunishDepth
    rng = random.Random(case["seed"])
    d = rng.choice([2, 2, 3])
    lv = rng.choice([1, 2]) if d == 2 else 1
    a, b = [0.0] * d, [1.0] * d
    cfg = {"d": d, "lmin": lv, "lmax": lv, "a": a, "b": b, "steps": rng.randint(1, 8 if d == 2 else 5), "profile": "real"}
    res.sample = {"config": cfg}
    comps = [driver_component(rng, d, case["seed"], a, b)]
    mc, me = multilinear_components(rng, d, a, b, n=5)
    comps += mc
    exact = [0.0] + me
    groups = {"multilinear": (np.arange(1, len(comps)), "cell_multilinear_integral", "C04_cell_multilinear_integral", [8.0] * len(mc))}
    f = hooks.VFunction(comps)
    obs = ObsExact(res, cfg, None, exact, groups, "cell", max_points=1500)
    grid = TrapezoidalGrid(np.array(a), np.array(b))
    op = Integration(f, grid, d, print_level=100, log_level=100)
    cls = hooks.observed(SpatiallyAdaptiveCellScheme)
    c = cls(np.array(a), np.array(b), operation=op)
    c.log_util.set_print_level(100)
    c.log_util.set_log_level(100)
    c.vobs = obs
    with contextlib.redirect_stdout(io.StringIO()):
        hooks.run_adaptive(c, lmin=lv, lmax=lv, errorOperator=ErrorCalculatorSurplusCell(), tol=-1.0, max_evaluations=10 ** 9,
                           do_plot=False, print_output=False)
    res.hash = digest([cfg, len(c.refinement.get_objects()), obs.evals])
    res.nontrivial = obs.steps >= 2
    res.count("refine_steps", obs.steps)
    res.states.add(digest(sorted((tuple(map(float, o.start)), tuple(map(float, o.end))) for o in c.refinement.get_objects())))
    res.sample = {"config": cfg, "steps": obs.steps, "cells": len(c.refinement.get_objects()), "trace": obs.trace[:6]}


def crash_sig(case, ex, where, tb):
    return "C04_crash:%s:%s@%s" % (case["gen"], type(ex).__name__, where)


def run_case(case, res):
    g = case["gen"]
    if g == "dimwise":
        run_dimwise(case, res, modified=False)
    elif g == "modified":
        run_dimwise(case, res, modified=True)
    elif g == "extsplit":
        run_extsplit(case, res)
    else:
        run_cell(case, res)

RULE += (" " + 'A leading-dimension error profile (one dimension several levels ahead before the others follow) carries extra weight; the tensor-grid entry point interpolate_grid is judged as well; typed / integer / mixed-scale domains.')
