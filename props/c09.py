"""C09 — global adaptive 1-D quadrature rules are exact on every refinement-tree grid."""
import itertools
import math
import random

import numpy as np

from vlib import hooks, trees
from vlib import refmodels as rm
from vlib.common import case_seed, digest

RULE = ("generated refinement trees (3..48 points, uniform / one-sided / graded / complete+extra, depth<=12, midpoint splits) on 8 kinds "
        "of intervals, d=1..2 with independent trees per dimension; grids GlobalTrapezoidalGrid (boundary on / off / off+modified "
        "basis), GlobalHighOrderGrid, GlobalLagrangeGrid p=1..4, GlobalBSplineGrid p=1,3: set_grid, weights, integrate. Oracle: "
        "trapezoid weights == exact integrals of the nodal piecewise-linear basis (zero boundary values / linear extrapolation), "
        "non-negative, independent of the level assignment, linear functions exact; higher-order rules: degree<=1 exact on every "
        "tree, degree<=p exact on trees with the complete level ceil(log2(p+1)). distinct = digest(grid, level sequences); "
        "non-trivial = non-uniform tree")
RULE += (" The observed set_grid is preceded by 0..2 other trees set (and half of the time integrated) on the SAME grid object.")
REQUIRED = ["trapezoid_weights", "trapezoid_nonnegative", "trapezoid_level_independent", "trapezoid_linear_exact", "modified_weights",
            "modified_linear_exact", "highorder_linear_exact", "lagrange_linear_exact", "lagrange_degree_p_exact",
            "bspline_linear_exact", "bspline_degree_p_exact"]
MIN_NONTRIVIAL = {"quick": 800, "thorough": 10000}
CHUNK = {"quick": 120, "thorough": 1000}
ASSUMPTIONS = ["'enough points' for degree p is read as: the tree contains the complete level ceil(log2(p+1)) (calibrated on the unchanged "
               "tree); on other trees the literal min(p, n-1) reading is evaluated and attributed to the known finding",
               "GlobalHighOrderGrid: degrees above 1 are only observed"]

KINDS = ["trap_b", "trap_nb", "trap_mod", "highorder", "lagrange", "bspline"]


def cases(tier, seed):
    n = 2400 if tier == "quick" else 60000
    return [{"gen": "tree", "seed": case_seed(seed, "C09", "tree", i)} for i in range(n)]


def poly_components(degs_list, a, b):
    comps, exact = [], []
    d = len(a)
    vol = float(np.prod(np.array(b) - np.array(a)))
    for mi in degs_list:
        def g(x, mi=mi):
            v = 1.0
            for k in range(d):
                v *= float(rm.legendre_shifted(mi[k], x[k], a[k], b[k])) + 0.5
            return v
        comps.append(g)
        ex = vol
        for k in range(d):
            ex *= 1.5 if mi[k] == 0 else 0.5
        exact.append(ex)
    return comps, exact


def run_case(case, res):
    import sparseSpACE.Grid as G
    rng = random.Random(case["seed"])
    kind = rng.choice(KINDS)
    d = rng.choice([1, 1, 2])
    p = rng.choice([1, 2, 3, 4]) if kind == "lagrange" else rng.choice([1, 3])
    bk, a, b = hooks.gen_box(rng, d, ["unit", "unit", "shifted", "negative", "aniso", "dyadic", "tiny", "huge", "integer"])
    # the domain is handed over as float arrays (default), lists, tuples, python ints or integer-typed arrays
    mode = rng.choice(hooks.INPUT_MODES) if (bk == "integer" or rng.random() < 0.1) else "float_array"
    maxn = 48 if d == 1 else (17 if kind in ("lagrange", "bspline", "highorder") else 33)
    pts, levs = [], []
    for k in range(d):
        n = rng.choice([x for x in [3, 4, 5, 6, 7, 9, 12, 17, 24, 33, 48] if x <= maxn])
        P, L = trees.gen_tree(rng, a[k], b[k], n_points=n)
        pts.append(P)
        levs.append(L)
    cfg = {"grid": kind, "d": d, "p": p if kind in ("lagrange", "bspline") else None, "a": a, "b": b, "box": bk,
           "n": [len(x) for x in pts], "levels": levs}
    res.sample = {"config": cfg, "points_dim0": pts[0][:12]}
    an, bn = hooks.typed(a, mode), hooks.typed(b, mode)
    vol = float(np.prod(np.array(b, dtype=float) - np.array(a, dtype=float)))
    cfg["input_mode"] = mode
    if mode != "float_array":
        res.count("domain_given_as_" + mode)
    cond = max(max(abs(a[k]), abs(b[k])) / (b[k] - a[k]) for k in range(d))

    def history(grid):
        # the dimension-wise strategy calls set_grid on ONE grid object for every component grid: other trees come first
        for _ in range(rng.choice([0, 0, 1, 2])):
            hp, hl = [], []
            mode = rng.random()
            for k in range(d):
                if mode < 0.3:
                    P, L = [a[k] + b[k] - x for x in reversed(pts[k])], list(reversed(levs[k]))   # mirror image, same size
                elif mode < 0.55:
                    P, L = trees.ancestor(rng, pts[k], levs[k])     # an earlier refinement stage of the observed tree
                elif mode < 0.7:
                    P, L = list(pts[k]), list(levs[k])              # the very same stripe was already set once
                else:
                    P, L = trees.gen_tree(rng, a[k], b[k], n_points=rng.choice([3, 5, 6, 9, 12]))
                hp.append([float(x) for x in P])
                hl.append([int(x) for x in L])
            try:
                grid.set_grid(hp, hl)
                if rng.random() < 0.5:
                    grid.integrate(hooks.VFunction([lambda q: 1.0 + q[0]]), [max(l) for l in hl], an, bn)
                res.count("history_steps")
            except AssertionError:
                pass

    # integration is linear: the same polynomials at a magnitude of 1e-9 / 1e-12 / 1e6 must come out scaled by that factor
    fscale = 1.0 if rng.random() < 0.8 else rng.choice([1e-9, 1e-12, 1e6])
    cfg["integrand_scale"] = fscale
    if fscale != 1.0:
        res.count("integrand_magnitude_not_one")

    def integrate(grid, degs_list, lv=None):
        comps, exact = poly_components(degs_list, a, b)
        if fscale != 1.0:
            comps = [(lambda q, g=g: fscale * g(q)) for g in comps]
        f = hooks.VFunction(comps)
        val = np.atleast_1d(np.asarray(grid.integrate(f, lv or [max(l) for l in levs], an, bn), dtype=float)) / fscale
        return val, np.array(exact)

    if kind.startswith("trap"):
        boundary = kind == "trap_b"
        modified = kind == "trap_mod"
        grid = G.GlobalTrapezoidalGrid(an, bn, boundary=boundary, modified_basis=modified)
        history(grid)
        grid.set_grid(pts, levs)
        for k in range(d):
            w = np.asarray(grid.weights[k], dtype=float)
            if modified:
                ref = rm.trapezoid_weights_modified(pts[k])
                mon, sig = "modified_weights", "C09_modified_basis_weights"
            elif boundary:
                ref = rm.trapezoid_weights(pts[k])
                mon, sig = "trapezoid_weights", "C09_trapezoid_weights:boundary"
            else:
                ref = rm.trapezoid_weights_zero_boundary(pts[k])
                mon, sig = "trapezoid_weights", "C09_trapezoid_weights:no_boundary"
            wtol = (1e-13 + (1e-14 if modified else 1e-16) * cond) * (b[k] - a[k])
            res.close(mon, w, ref, wtol, sig,
                      "GlobalTrapezoidalGrid(boundary=%s, modified=%s) weights differ from the exact integrals of the nodal basis" % (boundary, modified),
                      dict(cfg, dim=k, points=pts[k][:20]))
            if not modified:
                res.check("trapezoid_nonnegative", bool(np.all(w >= 0)), "C09_trapezoid_negative_weight", "negative trapezoid weight", cfg)
        # independent of the level assignment
        alt = [trees.balanced_levels(len(P)) for P in pts]
        g2 = G.GlobalTrapezoidalGrid(an, bn, boundary=boundary, modified_basis=modified)
        g2.set_grid(pts, alt)
        same = all(np.array_equal(np.asarray(grid.weights[k], dtype=float), np.asarray(g2.weights[k], dtype=float)) for k in range(d))
        res.check("trapezoid_level_independent", same, "C09_trapezoid_depends_on_levels",
                  "trapezoid weights change with a different valid level assignment of the same points", cfg)
        if boundary or modified:
            degs = [tuple([0] * d), tuple([1] * d)] + [tuple(rng.randint(0, 1) for _ in range(d)) for _ in range(2)]
            val, exact = integrate(grid, degs)
            res.close("modified_linear_exact" if modified else "trapezoid_linear_exact", val, exact,
                      (1e-12 + (1e-13 if modified else 1e-15) * cond) * vol * 1.5 ** d * 4,
                      "C09_linear_not_exact:" + kind, "linear functions are not integrated exactly", cfg)
    else:
        if kind == "highorder":
            grid = G.GlobalHighOrderGrid(an, bn, boundary=True)
        elif kind == "lagrange":
            grid = G.GlobalLagrangeGrid(an, bn, boundary=True, p=p)
        else:
            grid = G.GlobalBSplineGrid(an, bn, boundary=True, p=p)
        history(grid)
        grid.set_grid(pts, levs)
        degs = [tuple([0] * d), tuple([1] * d)] + [tuple(rng.randint(0, 1) for _ in range(d)) for _ in range(2)]
        val, exact = integrate(grid, degs)
        wsum = 1.0
        for k in range(d):
            wsum *= float(np.sum(np.abs(np.asarray(grid.weights[k], dtype=float)))) / (b[k] - a[k])
        tol = (1e-11 + 1e-14 * cond) * vol * 1.5 ** d * 4 * max(1.0, wsum)
        res.close(kind + "_linear_exact", val, exact, tol, "C09_linear_not_exact:" + kind + (":p%d" % p if kind != "highorder" else ""),
                  "%s: constants / linear functions are not integrated exactly on this refinement tree" % kind, cfg)
        if kind in ("lagrange", "bspline") and p > 1:
            need = math.ceil(math.log2(p + 1))
            complete = all(trees.has_complete_level(levs[k], need) for k in range(d))
            npts = [len(P) for P in pts]
            literal = [min(p, n - 1) for n in npts]
            degs = [tuple(literal)] + [tuple(rng.randint(0, literal[k]) for k in range(d)) for _ in range(4)]
            val, exact = integrate(grid, degs)
            tolp = (1e-10 + 1e-13 * cond * p * p) * vol * 1.5 ** d * 4 * max(1.0, wsum)
            if complete:
                res.close(kind + "_degree_p_exact", val, exact, tolp, "C09_degree_p_not_exact:%s:p%d" % (kind, p),
                          "%s p=%d: polynomials of degree <= %s are not integrated exactly although the tree contains the complete level %d" % (
                              kind, p, literal, need), cfg)
            else:
                res.close(kind + "_degree_p_literal_on_incomplete_tree", val, exact, tolp,
                          "C09_degree_min_p_n-1_not_exact_on_tree_without_complete_level:%s" % kind,
                          "%s p=%d: degree min(p, n-1)=%s is not integrated exactly on a tree that lacks the complete level %d" % (kind, p, literal, need), cfg)
        elif kind in ("lagrange", "bspline"):
            res.count(kind + "_degree_p_exact")  # p == 1: covered by the linear clause
    res.hash = digest([kind, p, levs, a, b])
    res.nontrivial = any(len(set(np.round(np.diff(P) / (P[-1] - P[0]), 12))) > 1 for P in pts)
    res.states.add(digest([kind, levs]))


def crash_sig(case, ex, where, tb):
    rng = random.Random(case["seed"])
    kind = rng.choice(KINDS)
    return "C09_crash:%s:%s@%s" % (kind, type(ex).__name__, where)

RULE += (" " + 'Domains handed over as lists / tuples / ints / integer arrays; integrands at magnitudes 1e-12, 1e-9, 1e6.')
