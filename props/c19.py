"""C19 — classification assigns the arg-max density class under the learning scaling."""
import contextlib
import io
import random

import numpy as np

from vlib.common import case_seed, digest

RULE = ("labelled data (2-4 classes 0..k-1, d=2 (3 in thorough), 40-200 samples, optional unlabelled samples, clustered or "
        "overlapping classes) -> Classification(split_percentage in {1.0,0.8,0.5}, split_evenly, shuffle_data) learned with "
        "perform_classification (levels<=4, mass lumping on/off, one-vs-others on/off) or perform_classification_dimension_wise "
        "(small max_evaluations); then a generated sequence of __call__(fresh DataSet) / test_data(fresh DataSet) with samples "
        "inside, partly outside and entirely outside the learned range, re-evaluation of earlier sets and evaluate(). Oracle: "
        "learning scaling recomputed independently; class == argmax of the per-class estimators at the scaled sample; exactly the "
        "out-of-range samples are missing; summary numbers; stability of earlier results. distinct = digest(configuration, call "
        "sequence); non-trivial = >=3 calls incl. >=1 with removed samples")
RULE += (" " + 'In a third of the cases the learning range is given explicitly (data_range wider than the data); evaluated sets include samples exactly ON the learned range (learning samples attaining a minimum/maximum, corners).')
RULE += (" Between the calls the user modifies the copies handed out by get_testing_data / get_learning_data / get_omitted_data (revert_scaling, scale_factor, scale_range, shift_value, shuffle, remove_samples).")
RULE += (" Half of the evaluated data sets are built directly on the caller's arrays, which must come back unmodified.")
RULE += (" Densities are also compared at positions exactly on grid nodes / grid lines; evaluated data include the centre / quarter positions of the learned range.")
RULE += (" The per-class densities are cross-checked against the hat expansion of the estimators' own surpluses; a few standard-mode cases use maximum level 8 (component grids above the 200-point switch).")
REQUIRED = ["density_on_grid_nodes", "argmax_class", "removed_samples_exact", "entirely_outside_raises", "summary_consistent", "earlier_results_stable",
            "testset_prefix_stable", "unlabelled_not_classified", "evaluate_consistent"]
MIN_NONTRIVIAL = {"quick": 30, "thorough": 500}
CHUNK = {"quick": 4, "thorough": 30}
ASSUMPTIONS = ["arrays handed to DataSet remain the caller's data: an in-place change of them by __call__/test_data is reported, because every later use of the same array would be classified at positions the caller never supplied",
               "labels are 0..k-1 (the class returned by the library is the index of the per-class estimator)",
               "the per-class density estimators themselves are the source of truth for the densities (consistency property)",
               "samples whose scaled coordinate lies within 1e-9 of the cut-offs 0.0049 / 0.9951 are not judged"]


def cases(tier, seed):
    n = 240 if tier == "quick" else 4000
    return [{"gen": "classifier", "seed": case_seed(seed, "C19", "classifier", i), "tier": tier} for i in range(n)]


def gen_labelled(rng, npr, d, k, n):
    centers = npr.uniform(-2, 3, size=(k, d))
    spread = rng.choice([0.25, 0.5, 1.0])
    y = npr.randint(0, k, size=n)
    for c in range(k):
        y[c] = c
    X = centers[y] + spread * npr.randn(n, d)
    return X, y.astype(np.int64)


def scaled(X, mn, mx):
    return (X - mn) * (0.99 / (mx - mn)) + 0.005


def run_case(case, res):
    from sparseSpACE.DEMachineLearning import DataSet, Classification
    rng = random.Random(case["seed"])
    npr = np.random.RandomState(case["seed"] % 2 ** 31)
    tier = case.get("tier", "quick")
    d = rng.choice([2, 2, 2, 2, 2, 2, 2, 3, 3, 4])     # data with three or more features as well
    k = rng.choice([2, 2, 3, 4])
    n = rng.choice([40, 80, 120, 200])
    X, y = gen_labelled(rng, npr, d, k, n)
    with_unl = rng.random() < 0.3
    if with_unl:
        y = y.copy()
        idx = npr.choice(np.arange(k, n), size=n // 6, replace=False)
        y[idx] = -1
    split = rng.choice([1.0, 0.8, 0.5])
    cfg = {"d": d, "classes": k, "n": n, "unlabelled_in_learning": with_unl, "split": split, "split_evenly": rng.random() < 0.5,
           "shuffle": rng.random() < 0.5, "mode": rng.choice(["standard", "standard", "dimwise"]), "masslumping": rng.random() < 0.5,
           "one_vs_others": rng.random() < 0.3, "lambda": rng.choice([0.0, 0.01, 0.1]), "lmax": rng.choice([2, 3, 4])}
    if d >= 3:
        cfg["lmax"] = min(cfg["lmax"], 3)
        res.count("three_or_more_features")
    if d == 2 and cfg["mode"] == "standard" and rng.random() < 0.1:
        cfg["lmax"], cfg["masslumping"] = 8, True     # component grids above the 200-point switch (255 x 1 ...)
        res.count("large_component_grids")
    res.sample = {"config": cfg}
    lab = y >= 0
    mn, mx = X[lab].min(axis=0), X[lab].max(axis=0)
    box_mn, box_mx = mn.copy(), mx.copy()
    data_range = None
    if rng.random() < 0.35:
        # the user states the original range explicitly (wider than the bounding box of the labelled data)
        wdt = mx - mn
        mn = mn - np.array([rng.choice([0.0, rng.uniform(0.05, 0.5)]) for _ in range(d)]) * wdt
        mx = mx + np.array([rng.choice([0.0, rng.uniform(0.05, 0.5)]) for _ in range(d)]) * wdt
        data_range = (mn.copy(), mx.copy())
        res.count("explicit_data_range")
    cfg["explicit_data_range"] = data_range is not None
    sink = io.StringIO()
    with contextlib.redirect_stdout(sink):
        cl = Classification(DataSet((X.copy(), y.copy()), name="learn"), data_range=data_range, split_percentage=split,
                            split_evenly=cfg["split_evenly"], shuffle_data=cfg["shuffle"], print_output=False, log_level=100, print_level=100)
        if cfg["mode"] == "standard":
            cl.perform_classification(masslumping=cfg["masslumping"], lambd=cfg["lambda"], minimum_level=1, maximum_level=cfg["lmax"],
                                      one_vs_others=cfg["one_vs_others"], print_metrics=False)
        else:
            cl.perform_classification_dimension_wise(masslumping=cfg["masslumping"], lambd=cfg["lambda"], minimum_level=1, maximum_level=2,
                                                     max_evaluations=rng.choice([20, 40, 80]), one_vs_others=cfg["one_vs_others"],
                                                     print_metrics=False, tolerance=-1.0)
    estimators = cl.get_density_estimation_results()[0]
    if len(estimators) != k:
        # a class is absent from the learning part of the split: the library identifies classes with estimator indices,
        # so the stated assumption (labels 0..k-1, every class learned) does not hold for this case
        res.note("class_missing_in_learning_split")
        res.hash = digest([cfg, "class_missing"])
        return
    res.check("one_estimator_per_class", len(estimators) == k, "C19_estimator_count", "%d estimators for %d classes" % (len(estimators), k), cfg)

    def densities(S):
        with contextlib.redirect_stdout(io.StringIO()):
            return np.array([np.asarray(e([tuple(p) for p in S]), dtype=float).reshape(len(S)) for e in estimators]).T

    def densities_ref(S):
        """hat expansion of the stored surpluses of every estimator (independent of the library's interpolation code)"""
        from vlib import demodel
        out = []
        for e in estimators:
            tot = np.zeros(len(S))
            for g in e.scheme:
                lv = tuple(int(x) for x in g.levelvector)
                al = np.asarray(e.operation.surpluses[lv], dtype=float)
                if hasattr(e, "get_point_coord_for_each_dim"):
                    coords, _, _ = e.get_point_coord_for_each_dim(list(lv))
                    xs = [[float(x) for x in cd] for cd in coords]
                else:
                    xs = demodel.uniform_stripes(lv)
                if int(np.prod([len(x) - 2 for x in xs])) != len(al):
                    return None
                tot += g.coefficient * demodel.interpolate(xs, al, [tuple(p) for p in S])
            out.append(tot)
        return np.array(out).T

    def expected_for(Xn):
        S = scaled(Xn, mn, mx)
        near = np.any((np.abs(S - 0.0049) < 1e-9) | (np.abs(S - 0.9951) < 1e-9), axis=1)
        keep = ~(np.any(S < 0.0049, axis=1) | np.any(S > 0.9951, axis=1))
        return S, keep, near

    def judge_classes(S_kept, classes, where):
        if len(S_kept) == 0:
            return
        D = densities(S_kept)
        try:
            Dr = densities_ref(S_kept)
        except Exception:
            Dr = None
        if Dr is not None:
            res.close("density_matches_hat_expansion", D, Dr, 1e-8 * max(1.0, float(np.max(np.abs(Dr)))) * 8, "C19_density_differs_from_hat_expansion",
                      "%s: the estimators' densities differ from the hat expansion of their own surpluses" % where, cfg)
        best = D.max(axis=1)
        chosen = D[np.arange(len(classes)), np.asarray(classes, dtype=int)]
        ok = np.abs(chosen - best) <= 1e-12 * np.maximum(1.0, np.abs(best))
        res.check("argmax_class", bool(ok.all()), "C19_class_not_argmax",
                  "%s: %d of %d samples did not receive the class with the largest density" % (where, int((~ok).sum()), len(ok)),
                  dict(cfg, example={"densities": D[~ok][:2], "assigned": np.asarray(classes)[~ok][:2]}))

    # positions exactly on grid nodes / grid lines of the component grids (quantised or integer features end up there): the densities
    # the classes are decided with must be the sparse-grid functions defined by the learned surpluses there as well
    Lg = int(cfg["lmax"]) if cfg["mode"] == "standard" else 3
    T = np.array([[rng.randrange(1, 2 ** Lg) / 2.0 ** Lg if rng.random() < 0.8 else rng.uniform(0.01, 0.99) for _ in range(d)]
                  for _ in range(48)])
    try:
        Dn, Dnr = densities(T), densities_ref(T)
    except Exception:
        Dn, Dnr = None, None
    if Dn is not None and Dnr is not None:
        res.close("density_on_grid_nodes", Dn, Dnr, 1e-8 * max(1.0, float(np.max(np.abs(Dnr)))) * 8, "C19_density_differs_from_hat_expansion:on_grid_nodes",
                  "the estimators' densities at positions on grid nodes / grid lines differ from the hat expansion of their own surpluses", cfg)
    calls = []
    history = []   # (kind, Xn, yn, kept mask, classes)
    testset_classes = list(cl.get_calculated_classes_testset())
    ncalls = rng.randint(2, 7)
    removed_any = False
    def scaled_call(where):
        """A data set that already carries the learning scaling (handed out by the object itself) is evaluated as it is."""
        ds = cl.get_testing_data()
        if ds.is_empty():
            ds = cl.get_learning_data()
        if ds.is_empty():
            return
        S0 = np.asarray(ds[0], dtype=float).reshape(-1, d).copy()
        try:
            with contextlib.redirect_stdout(io.StringIO()):
                out = cl(ds, print_removed=False)
        except ValueError as ex:
            res.note("already_scaled_set_rejected:" + str(ex)[:40])
            return
        Sout, cls = np.asarray(out[0], dtype=float).reshape(-1, d), np.asarray(out[1])
        same = Sout.shape == S0.shape and bool(np.all(np.abs(Sout - S0) <= 1e-12))
        res.check("already_scaled_set_not_rescaled", same, "C19_already_scaled_set_scaled_again",
                  "%s: a data set in the learning scaling (from the object's own getter) comes back at other positions" % where, cfg)
        if same:
            judge_classes(S0, cls, where)

    for ci in range(ncalls):
        if rng.random() < 0.2:
            scaled_call("scaled_call#%d" % ci)
        if rng.random() < 0.35:
            # the user works with the COPIES handed out by the getters (looks at held-out samples in original coordinates,
            # rescales them, ...): nothing of this may change the scaling fixed at learning time
            with contextlib.redirect_stdout(io.StringIO()):
                got = rng.choice([cl.get_testing_data, cl.get_learning_data, cl.get_omitted_data])()
                try:
                    if not got.is_empty():
                        act = rng.choice(["revert", "factor", "range", "shift", "shuffle", "remove"])
                        if act == "revert":
                            got.revert_scaling()
                        elif act == "factor":
                            got.scale_factor(rng.choice([2.0, -0.5, np.array([rng.uniform(0.5, 3) for _ in range(d)])]))
                        elif act == "range":
                            got.scale_range((0.0, 1.0), override_scaling=rng.random() < 0.5)
                        elif act == "shift":
                            got.shift_value(rng.uniform(-1, 1), override_scaling=rng.random() < 0.5)
                        elif act == "shuffle":
                            got.shuffle()
                        else:
                            got.remove_samples([0])
                        res.count("getter_copies_modified")
                except (ValueError, IndexError):
                    pass
        kind = rng.choice(["call", "call", "test", "test", "recall"])
        if kind == "recall" and not history:
            kind = "call"
        where = "%s#%d" % (kind, ci)
        if kind == "recall":
            _, Xn, yn, keep_old, cls_old = rng.choice(history)
        else:
            m = rng.choice([1, 5, 20, 60])
            region = rng.choice(["inside", "inside", "partly", "outside", "bbox"])
            if region == "bbox":
                # samples exactly ON the learned range: learning samples attaining a minimum / maximum, corners of the range
                rows = [X[lab][np.argmin(X[lab][:, j])] for j in range(d)] + [X[lab][np.argmax(X[lab][:, j])] for j in range(d)]
                rows += [np.where(npr.rand(d) < 0.5, mn, mx) for _ in range(3)] + [mn.copy(), mx.copy()]
                # centre / quarter positions of the learned range (they scale onto grid nodes up to rounding)
                rows += [mn + 0.5 * (mx - mn), mn + np.array([rng.choice([0.25, 0.5, 0.75]) for _ in range(d)]) * (mx - mn)]
                rows += list(X[lab][npr.choice(int(lab.sum()), size=min(m, int(lab.sum())), replace=False)])
                Xn = np.array(rows, dtype=float)
                m = len(Xn)
                res.count("samples_on_learned_range")
            elif region == "inside":
                Xn = mn + npr.uniform(0.02, 0.98, size=(m, d)) * (mx - mn)
            elif region == "partly":
                Xn = mn + npr.uniform(-0.3, 1.3, size=(m, d)) * (mx - mn)
            else:
                Xn = mx + npr.uniform(0.05, 1.0, size=(m, d)) * (mx - mn)
            yn = npr.randint(0, k, size=m).astype(np.int64)
            if region in ("inside", "partly") and rng.random() < 0.15:
                Xn = np.round(Xn) + 0.0          # whole-number samples; handed over as an integer-typed array below
            if kind == "test" and rng.random() < 0.4:
                yn[npr.rand(m) < 0.3] = -1
        S, keep, near = expected_for(Xn)
        calls.append({"kind": kind, "m": len(Xn), "kept": int(keep.sum())})
        # half of the time the data set is built directly on the caller's arrays (no defensive copy): they must come back untouched
        own = rng.random() < 0.5
        Xarg, yarg = (Xn.copy(), yn.copy()) if own else (Xn, yn)
        if kind != "recall" and Xn.size and bool(np.all(Xn == np.round(Xn))) and rng.random() < 0.7:
            Xarg, own = Xn.astype(np.int64), True
            res.count("integer_typed_samples")
        Xkeep, ykeep = Xn.copy(), yn.copy()
        ds = DataSet((Xarg, yarg), name="new%d" % ci)
        if near.any():
            res.note("sample_on_cutoff_not_judged")
            continue
        labelled_kept = keep & (yn >= 0)
        try:
            with contextlib.redirect_stdout(io.StringIO()):
                if kind in ("call", "recall"):
                    out = cl(ds, print_removed=False)
                else:
                    out = cl.test_data(ds, print_output=False, print_removed=False)
        except ValueError as ex:
            nothing_to_do = (not keep.any()) or (kind == "test" and not labelled_kept.any())
            res.check("entirely_outside_raises", nothing_to_do, "C19_value_error_although_samples_inside",
                      "%s raised ValueError(%s) although %d samples are inside the learned range" % (where, str(ex)[:60], int(keep.sum())), cfg)
            continue
        if not own:
            res.check("caller_arrays_untouched", np.array_equal(Xn, Xkeep) and np.array_equal(yn, ykeep), "C19_caller_array_modified",
                      "%s: the sample / label arrays passed in by the caller were modified in place (max change %.3g)" % (
                          where, float(np.max(np.abs(Xn - Xkeep))) if Xn.shape == Xkeep.shape else float("nan")), cfg)
            Xn[...] = Xkeep     # keep the harness' expectations for later re-evaluations meaningful
            yn[...] = ykeep
        if not keep.any():
            res.check("entirely_outside_raises", False, "C19_entirely_outside_not_rejected", "%s: data entirely outside the learned range was accepted" % where, cfg)
            continue
        if (~keep).any():
            removed_any = True
        if kind in ("call", "recall"):
            Sout, cls = np.asarray(out[0], dtype=float).reshape(-1, d), np.asarray(out[1])
            okrem = len(Sout) == int(keep.sum()) and (len(Sout) == 0 or bool(np.all(np.abs(Sout - S[keep]) <= 1e-9)))
            res.check("removed_samples_exact", okrem, "C19_removed_samples_wrong",
                      "%s: %d samples returned, %d expected inside the learned range (or different samples)" % (where, len(Sout), int(keep.sum())), cfg)
            if okrem:
                judge_classes(S[keep], cls, where)
                if kind == "recall":
                    res.check("earlier_results_stable", np.array_equal(cls, cls_old), "C19_earlier_classes_changed",
                              "%s: re-evaluating an earlier data set returns different classes" % where, cfg)
                else:
                    history.append((kind, Xn, yn, keep, cls.copy()))
        else:
            total, wrong, pct = out.get("Total mappings"), out.get("Wrong mappings"), out.get("Percentage correct")
            res.check("unlabelled_not_classified", total == int(labelled_kept.sum()), "C19_test_total_wrong",
                      "%s: %s samples tested, %d labelled samples inside the range" % (where, total, int(labelled_kept.sum())), cfg)
            new_all = list(cl.get_calculated_classes_testset())
            res.check("testset_prefix_stable", new_all[:len(testset_classes)] == testset_classes, "C19_testset_prefix_changed",
                      "%s: previously calculated test classes changed" % where, cfg)
            new_cls = np.array(new_all[len(testset_classes):])
            testset_classes = new_all
            if len(new_cls) == int(labelled_kept.sum()):
                judge_classes(S[labelled_kept], new_cls, where)
                w = int(np.sum(new_cls != yn[labelled_kept]))
                okk = wrong == w and total == len(new_cls) and abs(pct - (1.0 - w / max(1, len(new_cls)))) < 1e-12
                res.check("summary_consistent", okk, "C19_summary_inconsistent",
                          "%s: summary wrong=%s total=%s pct=%s, recomputed wrong=%d total=%d" % (where, wrong, total, pct, w, len(new_cls)), cfg)
            else:
                res.check("summary_consistent", False, "C19_test_classes_length", "%s: %d new classes for %d tested samples" % (where, len(new_cls), int(labelled_kept.sum())), cfg)
        # evaluate() must stay consistent with the stored testing data
        try:
            with contextlib.redirect_stdout(io.StringIO()):
                ev = cl.evaluate()
            tset = cl.get_testing_data()
            calc = cl.get_calculated_classes_testset()
            okev = ev["Total mappings"] == tset.get_length() == len(calc) and ev["Wrong mappings"] == int(np.sum(np.asarray(tset[1]) != np.asarray(calc)))
            res.check("evaluate_consistent", okev, "C19_evaluate_inconsistent", "%s: evaluate() disagrees with the stored testing data" % where, cfg)
        except ValueError as ex:
            empty = cl.get_testing_data().is_empty()
            res.check("evaluate_consistent", empty and len(cl.get_calculated_classes_testset()) == 0,
                      "C19_evaluate_raises_after_test_data" if not empty or len(cl.get_calculated_classes_testset()) else "C19_evaluate_raises",
                      "%s: evaluate() raises ValueError(%s): %d stored test samples, %d calculated classes" % (
                          where, str(ex)[:50], cl.get_testing_data().get_length(), len(cl.get_calculated_classes_testset())), cfg)
    res.hash = digest([cfg, calls])
    res.nontrivial = len(calls) >= 3 and removed_any
    res.states.add(digest([cfg["mode"], cfg["classes"], [c["kind"] for c in calls]]))
    res.sample = {"config": cfg, "calls": calls}


def crash_sig(case, ex, where, tb):
    return "C19_crash:%s@%s" % (type(ex).__name__, where)

RULE += (" " + "3 and 4 features; integer-typed evaluation samples; data sets that already carry the learning scaling (from the object's own getters) are evaluated as they are.")
