"""C20 — regression solves the regularised least-squares problem on every component grid."""
import contextlib
import io
import random

import numpy as np

from vlib import demodel, trees
from vlib import refmodels as rm
from vlib.common import case_seed, digest

RULE = ("real Regression objects built with default construction arguments on generated data (d=1..3, 10-200 samples, smooth / noisy "
        "/ constant targets), lambda in {0,1e-4,1e-2,1}, matrix in {'C','I'}: (a) direct comparison of build_A_matrix, build_C_matrix "
        "(isotropic and anisotropic level vectors), build_A_matrix_dimension_wise and build_C_matrix_dimension_wise (refinement-tree "
        "stripes) with the reference hat design matrix and the Kronecker gradient Gram matrix; (b) train(p,lmin,lmax) and "
        "train_spatially_adaptive: normal-equation residual of the surpluses of every component grid against the reference matrices; "
        "(c) every optimize_coefficients variant (3 options, standard and spatially adaptive): coefficients sum to one. distinct = "
        "digest(generator, configuration, data digest); non-trivial = anisotropic / non-uniform grid or training with lmax>lmin")
RULE += (" " + 'Inputs include data quantised so that scaled coordinates sit exactly on (or within rounding of) grid lines; 40% of the trainings happen on an object that was trained before with another hold-out share / level range / lambda.')
RULE += (" A few cases use thousands of samples (design matrices with millions of entries) and level ranges up to 5.")
REQUIRED = ["default_construction", "A_matrix_uniform", "C_matrix_uniform", "C_matrix_psd", "A_matrix_dimwise", "C_matrix_dimwise",
            "normal_equations_unregularised", "normal_equations_identity", "normal_equations_gradient", "normal_equations_adaptive",
            "opticom_sum_one", "opticom_sum_one_adaptive"]
MIN_NONTRIVIAL = {"quick": 200, "thorough": 3000}
CHUNK = {"quick": 25, "thorough": 200}
ASSUMPTIONS = ["gradient Gram reference: sum_k K_k (x) prod_{j!=k} M_j from 1-D stiffness and mass matrices with zero boundary values",
               "training points are the scaled samples the object itself holds (scaling to [0.05,0.95] is part of the default construction)"]


def cases(tier, seed):
    n1, n2, n3 = (400, 110, 50) if tier == "quick" else (8000, 1500, 600)
    out = [{"gen": "matrix", "seed": case_seed(seed, "C20", "matrix", i)} for i in range(n1)]
    out += [{"gen": "train", "seed": case_seed(seed, "C20", "train", i)} for i in range(n2)]
    out += [{"gen": "train_adaptive", "seed": case_seed(seed, "C20", "train_adaptive", i)} for i in range(n3)]
    return out


def gen_regression_data(rng, d, large=False):
    npr = np.random.RandomState(rng.randrange(2 ** 31))
    m = rng.choice([10, 25, 60, 120, 200])
    if large:
        m = rng.choice([2500, 4000, 6001])     # thousands of samples: (samples x grid points x d) in the millions
    X = npr.uniform(-2, 3, size=(m, d)) * npr.uniform(0.5, 4, size=(1, d))
    if rng.random() < 0.3:
        # quantised inputs: after the default scaling to [0.05, 0.95] many coordinates sit exactly on grid lines k/2^l
        # (data range pinned to [0, 0.9]^d so that the affine map is x + 0.05)
        q = npr.randint(0, 17, size=(m, d))
        X = np.where(npr.rand(m, d) < 0.6, (q / 16.0 - 0.05) , npr.uniform(0.0, 0.9, size=(m, d)))
        X = np.clip(X, 0.0, 0.9)
        X[0, :], X[1, :] = 0.0, 0.9
    int_data = (not large) and rng.random() < 0.08
    if int_data:
        # whole-number features stored as an integer-typed array (counts, categories, years)
        X = npr.randint(-5, 20, size=(m, d)).astype(rng.choice([np.int64, np.int32]))
        X[0, :], X[1, :] = -5, 19
    kind = rng.choice(["smooth", "noisy", "linear", "constant"])
    if int_data and rng.random() < 0.5:
        y = npr.randint(-3, 9, size=m).astype(np.int64)      # integer-typed targets as well
        return X, y, "integer"
    if kind == "constant":
        y = np.full(m, 1.5)
    elif kind == "linear":
        y = X @ npr.uniform(-1, 1, size=d) + 0.3
    else:
        y = np.sin(X.sum(axis=1)) + 0.5 * np.cos(2 * X[:, 0])
        if kind == "noisy":
            y = y + 0.1 * npr.randn(m)
    return X, y, kind


def make_regression(X, y, lam, matrix):
    from sparseSpACE.GridOperation import Regression
    with contextlib.redirect_stdout(io.StringIO()):
        return Regression(X.copy(), y.copy(), lam, matrix, log_level=100, print_level=100)


def run_matrix(case, res):
    import sparseSpACE.Grid as G
    rng = random.Random(case["seed"])
    d = rng.choice([1, 2, 2, 3])
    large = rng.random() < 0.08
    X, y, kind = gen_regression_data(rng, d, large)
    if large:
        res.count("large_data_set")
    lam = rng.choice([0.0, 1e-4, 1e-2, 1.0])
    matrix = rng.choice(["C", "I"])
    cfg = {"d": d, "m": len(X), "targets": kind, "lambda": lam, "matrix": matrix}
    res.sample = {"config": cfg}
    try:
        reg = make_regression(X, y, lam, matrix)
        res.check("default_construction", True, "", "")
    except Exception as ex:
        res.check("default_construction", False, "C20_default_construction_raises:" + type(ex).__name__,
                  "Regression(data, targets, lambda, matrix) with default arguments raises %s: %s" % (type(ex).__name__, str(ex)[:120]), cfg)
        res.hash = digest(cfg)
        return
    reg.training_data = np.asarray(reg.data, dtype=float)
    reg.training_target_values = np.asarray(reg.target_values, dtype=float)
    T = reg.training_data
    res.check("scaled_into_range", float(T.min()) >= 0.05 - 1e-12 and float(T.max()) <= 0.95 + 1e-12, "C20_data_not_scaled",
              "training data not scaled into [0.05, 0.95]: [%r, %r]" % (float(T.min()), float(T.max())), cfg)
    # uniform grids
    while True:
        lv = [rng.randint(1, {1: 6, 2: 4, 3: 3}[d]) for _ in range(d)]
        N = int(np.prod([2 ** l - 1 for l in lv]))
        if N <= 130:
            break
    cfg["levels"] = lv
    xs = demodel.uniform_stripes(lv)
    reg.grid.numPoints = 2 ** np.asarray(lv, dtype=int) - 1
    A = np.asarray(reg.build_A_matrix(lv), dtype=float)
    Aref = demodel.hat_matrix(xs, T)
    res.close("A_matrix_uniform", A, Aref, 1e-13, "C20_A_uniform", "build_A_matrix differs from the hat values at the training points", cfg)
    C = np.asarray(reg.build_C_matrix(lv), dtype=float)
    Cref = rm.gradient_gram(xs, boundary=False)
    aniso = len(set(lv)) > 1
    res.close("C_matrix_uniform", C, Cref, 1e-12 * max(1.0, float(np.max(np.abs(Cref)))), "C20_C_uniform" + (":anisotropic" if aniso else ""),
              "build_C_matrix(%s) differs from the Gram matrix of the basis gradients" % lv, cfg)
    ev = np.linalg.eigvalsh((C + C.T) / 2)
    res.check("C_matrix_psd", bool(np.array_equal(C, C.T)) and ev[0] >= -1e-12 * max(1.0, float(np.max(np.abs(C)))),
              "C20_C_not_psd:uniform" + (":anisotropic" if aniso else ""), "build_C_matrix not symmetric positive semi-definite (min eig %r)" % ev[0], cfg)
    # non-uniform stripes
    caps = {1: [4, 5, 7, 9, 12, 17, 33], 2: [4, 5, 6, 7, 9, 12], 3: [4, 5, 6]}[d]
    xs2, levs = [], []
    deep = rng.random() < (0.15 if d == 1 else 0.05)
    for k in range(d):
        if deep and k == 0:
            # a deeply graded tree: neighbouring points down to 2^-22 apart (coordinates that differ by less than any absolute tolerance)
            P, L = trees.gen_tree(rng, 0.0, 1.0, n_points=rng.choice([24, 28, 33]) if d == 1 else max(caps), style="graded", max_depth=26)
            res.count("deeply_graded_tree")
        else:
            P, L = trees.gen_tree(rng, 0.0, 1.0, n_points=rng.choice(caps))
        xs2.append([float(x) for x in P])
        levs.append(L)
    N2 = int(np.prod([len(x) - 2 for x in xs2]))
    if N2 <= 150:
        cfg["n"] = [len(x) for x in xs2]
        reg.grid = G.GlobalTrapezoidalGrid(a=np.zeros(d), b=np.ones(d), boundary=False)
        A2 = np.asarray(reg.build_A_matrix_dimension_wise(xs2, levs), dtype=float)
        res.close("A_matrix_dimwise", A2, demodel.hat_matrix(xs2, T), 1e-13, "C20_A_dimwise",
                  "build_A_matrix_dimension_wise differs from the hat values at the training points", cfg)
        C2 = np.asarray(reg.build_C_matrix_dimension_wise(xs2, levs), dtype=float)
        C2ref = rm.gradient_gram(xs2, boundary=False)
        tag = ":d%d" % d if d > 1 else ":d1"
        res.close("C_matrix_dimwise", C2, C2ref, 1e-11 * max(1.0, float(np.max(np.abs(C2ref)))), "C20_C_dimwise" + tag,
                  "build_C_matrix_dimension_wise differs from the Gram matrix of the basis gradients (n=%s)" % cfg["n"], cfg)
        ev2 = np.linalg.eigvalsh((C2 + C2.T) / 2)
        res.check("C_matrix_psd", bool(np.array_equal(C2, C2.T)) and ev2[0] >= -1e-11 * max(1.0, float(np.max(np.abs(C2)))),
                  "C20_C_not_psd:dimwise" + tag, "build_C_matrix_dimension_wise not symmetric positive semi-definite (min eig %r)" % ev2[0], cfg)
    res.hash = digest([cfg, X.tobytes().hex()[:64]])
    res.nontrivial = aniso or N2 > 3
    res.states.add(digest([lv, levs]))


def normal_equation_residual(res, T, yv, xs, alphas, lam, matrix, monitor, sig, msg, cfg):
    A = demodel.hat_matrix(xs, T)
    m = len(yv)
    alphas = np.asarray(alphas, dtype=float).reshape(-1)
    if lam == 0:
        r = A.T @ (A @ alphas - yv)
        scale = np.linalg.norm(A, 2) * (np.linalg.norm(A, 2) * np.linalg.norm(alphas) + np.linalg.norm(yv)) + 1e-300
        res.close(monitor if monitor else "normal_equations_unregularised", r, np.zeros_like(r), 1e-9 * scale, sig + ":lambda0", msg, cfg)
    else:
        M = np.eye(A.shape[1]) if matrix == "I" else rm.gradient_gram(xs, boundary=False)
        L = A.T @ A / m + lam * M
        rhs = A.T @ yv / m
        r = L @ alphas - rhs
        scale = np.linalg.norm(L, 2) * np.linalg.norm(alphas) + np.linalg.norm(rhs) + 1e-300
        res.close(monitor if monitor else ("normal_equations_identity" if matrix == "I" else "normal_equations_gradient"),
                  r, np.zeros_like(r), 1e-9 * scale, sig + ":" + matrix, msg, cfg)


def check_opticom(res, reg, combi, adaptive, cfg):
    for option in (1, 2, 3):
        saved = [g.coefficient for g in combi.scheme]
        try:
            with contextlib.redirect_stdout(io.StringIO()):
                if adaptive:
                    reg.optimize_coefficients_spatially_adaptive(combi, option)
                else:
                    reg.optimize_coefficients(combi, option)
            ssum = float(np.sum([np.asarray(g.coefficient, dtype=float).reshape(-1)[0] for g in combi.scheme]))
            ok = np.isfinite(ssum) and abs(ssum - 1.0) <= 1e-9
            res.check("opticom_sum_one_adaptive" if adaptive else "opticom_sum_one", ok,
                      "C20_opticom_sum:option%d%s" % (option, ":adaptive" if adaptive else ""),
                      "optimize_coefficients option %d: coefficients sum to %r" % (option, ssum), cfg)
        except (ValueError, TypeError, IndexError, ZeroDivisionError, FloatingPointError) as ex:
            res.check("opticom_sum_one_adaptive" if adaptive else "opticom_sum_one", False,
                      "C20_opticom_raises:option%d%s:%s" % (option, ":adaptive" if adaptive else "", type(ex).__name__),
                      "optimize_coefficients option %d raises %s: %s" % (option, type(ex).__name__, str(ex)[:100]), cfg)
        for g, c0 in zip(combi.scheme, saved):
            g.coefficient = c0


def run_train(case, res, adaptive=False):
    rng = random.Random(case["seed"])
    d = rng.choice([1, 2, 2, 3]) if not adaptive else rng.choice([1, 2, 2])
    large = (not adaptive) and d == 2 and rng.random() < 0.04
    X, y, kind = gen_regression_data(rng, d, large)
    if large:
        res.count("large_data_set")
    if len(X) < 25:
        X, y, kind = gen_regression_data(random.Random(case["seed"] + 1), d)
    lam = rng.choice([0.0, 1e-4, 1e-2, 1.0])
    matrix = rng.choice(["C", "I"])
    lmin = rng.choice([1, 1, 2])
    lmax = lmin + rng.choice([0, 1, 2]) if d < 3 else lmin + rng.choice([0, 1])
    if large:
        lmin, lmax = 1, rng.choice([4, 5])
    cfg = {"d": d, "m": len(X), "targets": kind, "lambda": lam, "matrix": matrix, "lmin": lmin, "lmax": lmax, "adaptive": adaptive}
    res.sample = {"config": cfg}
    try:
        reg = make_regression(X, y, lam, matrix)
        res.check("default_construction", True, "", "")
    except Exception as ex:
        res.check("default_construction", False, "C20_default_construction_raises:" + type(ex).__name__,
                  "Regression(...) with default arguments raises %s" % type(ex).__name__, cfg)
        res.hash = digest(cfg)
        return
    with contextlib.redirect_stdout(io.StringIO()):
        if rng.random() < 0.4:
            # the same Regression object was trained before on another hold-out share / level range / lambda
            p0 = rng.choice([0.1, 0.3, 0.5])
            l0 = rng.choice([1, 2])
            reg.regularization = rng.choice([lam, 1e-3, 0.5])
            if adaptive and rng.random() < 0.5:
                reg.train_spatially_adaptive(p0, 0.9, -1.0, 10, False, False)
            else:
                reg.train(p0, l0, l0 + rng.choice([0, 1, 2]) if d < 3 else l0 + 1, False)
            if rng.random() < 0.5:
                reg.regularization = lam
            else:
                # lambda sweep on one object: the observed training uses a value that differs from the constructor's
                lam = rng.choice([x for x in (0.0, 1e-4, 1e-2, 0.5, 1.0) if x != lam])
                reg.regularization = lam
                cfg["lambda"] = lam
                cfg["lambda_changed_after_construction"] = True
                res.count("lambda_changed_after_construction")
            res.count("retrained_object")
            cfg["retrained"] = True
        if adaptive:
            combi = reg.train_spatially_adaptive(0.2, rng.choice([0.5, 0.9]), -1.0, rng.choice([10, 30, 60]), False, False)
        else:
            combi = reg.train(0.2, lmin, lmax, False)
    T = np.asarray(reg.training_data, dtype=float)
    ties = int(np.sum(np.isin(T, np.arange(1, 16) / 16.0)))
    if ties:
        res.count("training_coordinates_on_grid_lines", ties)
    yv = np.asarray(reg.training_target_values, dtype=float)
    ngr = 0
    for g in combi.scheme:
        lv = tuple(int(x) for x in g.levelvector)
        al = reg.surpluses[lv]
        if adaptive:
            coords, levels, _ = combi.get_point_coord_for_each_dim(list(lv))
            xs = [[float(x) for x in c_] for c_ in coords]
        else:
            xs = demodel.uniform_stripes(lv)
        ngr += 1
        normal_equation_residual(res, T, yv, xs, al, lam, matrix, "normal_equations_adaptive" if adaptive else None,
                                 "C20_normal_equations" + (":adaptive" if adaptive else "") + (":anisotropic" if len(set(lv)) > 1 else ""),
                                 "surpluses of component grid %s do not satisfy the normal equations of the stated problem" % (lv,), cfg)
    check_opticom(res, reg, combi, adaptive, cfg)
    res.hash = digest([cfg, X.tobytes().hex()[:64]])
    res.nontrivial = lmax > lmin or adaptive
    res.states.add(digest([d, lmin, lmax, lam, matrix, adaptive]))
    res.sample = {"config": cfg, "component_grids": ngr}


def crash_sig(case, ex, where, tb):
    return "C20_crash:%s:%s@%s" % (case["gen"], type(ex).__name__, where)


def run_case(case, res):
    g = case["gen"]
    if g == "matrix":
        run_matrix(case, res)
    else:
        run_train(case, res, adaptive=(g == "train_adaptive"))

RULE += (" " + 'Integer-typed features / targets; deeply graded refinement trees (mesh widths down to 2^-26).')
