"""C18 — DataSet transformations preserve the labelled samples (model-based history checking)."""
import random

import numpy as np

from vlib.common import case_seed, digest

RULE = ("generated histories (<=12 operations) over a population of real DataSet objects next to an executable model "
        "(rows, labels, scaling attributes, pre-scaling snapshot): scale_range/scale_factor/shift_value (override on/off, "
        "scalar/vector), shuffle, move_boundaries_to_front, split_labels, split_pieces, split_without_labels, "
        "remove_samples (valid/empty/out-of-range), concatenate (same/different scaling/different dimension/empty), "
        "revert_scaling; data sets of 0,1,2..200 samples, d=1..4, labels with/without -1, ties in the extremes, constant "
        "dimensions. After every operation every live object of the population is compared with its model. distinct = digest "
        "of (sizes, dims, op-kind sequence); non-trivial = >=3 operations incl. >=1 scaling and >=1 sample-moving operation")
REQUIRED = ["rows_and_labels", "multiset_preserved", "scale_range_maps_extremes", "revert_restores", "attributes_carried",
            "concatenate_refuses_different_scaling", "out_of_range_removal_rejected", "population_unaffected"]
MIN_NONTRIVIAL = {"quick": 1000, "thorough": 20000}
CHUNK = {"quick": 250, "thorough": 2500}
ASSUMPTIONS = ["factors are positive (a negative factor swaps minimum and maximum)",
               "an operation that raises on a degenerate input and leaves every object unchanged is a rejection, not a violation"]


def cases(tier, seed):
    n = 4000 if tier == "quick" else 120000
    return [{"gen": "history", "seed": case_seed(seed, "C18", "history", i)} for i in range(n)]


class M:
    """Model of one DataSet."""

    def __init__(self, X, y):
        self.X = np.array(X, dtype=float).reshape(len(y), -1) if len(y) else np.zeros((0, 0))
        self.y = np.array(y)
        self.scaled = False
        self.range = None
        self.factor = None
        self.omin = None
        self.omax = None
        self.orig = None      # rows before the first scaling since the last override (None = not scaled)
        self.subset = False   # derived from a scaled set by an operation that may have dropped extreme samples
        self.name = ""

    def derive(self, rows):
        m = M(self.X[rows], self.y[rows])
        m.scaled, m.range = self.scaled, _cp(self.range)
        m.factor, m.omin, m.omax = _cp(self.factor), _cp(self.omin), _cp(self.omax)
        m.orig = None if self.orig is None else self.orig[rows].copy()
        m.subset = self.subset or (self.scaled and len(rows) != len(self.y))
        return m


def _cp(v):
    if v is None:
        return None
    if isinstance(v, tuple):
        return tuple(_cp(x) for x in v)
    if isinstance(v, np.ndarray):
        return v.copy()
    return v


def _eq_attr(a, b, tol=1e-9):
    if a is None or b is None:
        return a is None and b is None
    if isinstance(a, tuple) or isinstance(b, tuple):
        if not (isinstance(a, tuple) and isinstance(b, tuple)) or len(a) != len(b):
            return False
        return all(_eq_attr(x, y, tol) for x, y in zip(a, b))
    try:
        a_, b_ = np.asarray(a, dtype=float), np.asarray(b, dtype=float)
        if a_.shape != b_.shape:
            a_, b_ = np.broadcast_arrays(a_, b_)
        return bool(np.all(np.abs(a_ - b_) <= tol * np.maximum(1.0, np.abs(b_))))
    except Exception:
        return False


def gen_dataset(rng):
    d = rng.choice([1, 2, 2, 3, 4])
    n = rng.choice([0, 1, 2, 3, 5, 8, 13, 30, rng.randint(2, 200)])
    k = rng.choice([1, 2, 3, 4])
    if n == 0:
        return np.zeros((0, d)), np.zeros(0, dtype=np.int64), d
    style = rng.choice(["random", "ties", "constdim", "grid"])
    npr = np.random.RandomState(rng.randrange(2 ** 31))
    X = npr.uniform(-3, 5, size=(n, d))
    if style == "ties":
        X = np.round(X) + 0.0  # many ties incl. the extremes (whole numbers)
    elif style == "constdim":
        X[:, npr.randint(d)] = 1.25
    elif style == "grid":
        X = npr.randint(0, 3, size=(n, d)).astype(float) * 0.5
    y = npr.randint(0, k, size=n).astype(np.int64)
    if rng.random() < 0.4:
        y[npr.rand(n) < 0.3] = -1
    return X, y, d


def snapshot(ds):
    return (np.array(ds[0], copy=True), np.array(ds[1], copy=True), ds.is_scaled(), _cp(ds.get_scaling_range()),
            _cp(ds.get_scaling_factor()), _cp(ds.get_original_min()), _cp(ds.get_original_max()))


def same_snapshot(s1, s2):
    return (s1[0].shape == s2[0].shape and np.array_equal(s1[0], s2[0]) and np.array_equal(s1[1], s2[1]) and s1[2] == s2[2]
            and _eq_attr(s1[3], s2[3], 0) and _eq_attr(s1[4], s2[4], 0) and _eq_attr(s1[5], s2[5], 0) and _eq_attr(s1[6], s2[6], 0))


def pairs(X, y):
    X = np.asarray(X, dtype=float)
    if X.size == 0:
        return []
    X = X.reshape(len(y), -1) + 0.0
    return sorted((X[i].tobytes(), int(y[i]) if float(y[i]).is_integer() else float(y[i])) for i in range(len(y)))


def match_permutation(Xold, yold, Xnew, ynew):
    """permutation p with new[i] == old[p[i]] (bitwise rows + label), or None"""
    from collections import defaultdict
    pool = defaultdict(list)
    for i in range(len(yold)):
        pool[((Xold[i] + 0.0).tobytes(), int(yold[i]))].append(i)
    p = []
    for i in range(len(ynew)):
        key = ((np.asarray(Xnew[i], dtype=float) + 0.0).tobytes(), int(ynew[i]))
        if not pool[key]:
            return None
        p.append(pool[key].pop())
    return p


class World:
    def __init__(self, res, rng):
        self.res, self.rng = res, rng
        self.objs = []   # list of (real, model)
        self.kinds = []
        self.n_scaling = 0
        self.n_moving = 0

    def ctx(self, extra=None):
        c = {"ops": self.kinds[-14:]}
        if extra:
            c.update(extra)
        return c

    def add(self, real, model, name):
        model.name = name
        self.objs.append((real, model))

    # -- comparison of one real object with its model
    def verify(self, real, model, where, tol=0.0):
        res = self.res
        n = len(model.y)
        X = np.asarray(real[0], dtype=float)
        okshape = real.get_length() == n and len(real[1]) == n
        if n:
            okshape = okshape and X.size == n * model.X.shape[1]
        if not res.check("rows_and_labels", okshape, "C18_length:" + _opname(where),
                         "%s: real object has %s samples / %s labels, model %d" % (where, real.get_length(), len(real[1]), n), self.ctx()):
            return False
        if n:
            X = X.reshape(n, -1)
            scale = max(1.0, float(np.max(np.abs(model.X))))
            okv = bool(np.all(np.abs(X - model.X) <= tol * scale)) if tol > 0 else np.array_equal(X + 0.0, model.X + 0.0)
            res.check("rows_and_labels", okv, "C18_values:" + _opname(where),
                      "%s: samples of %s differ from the model (max diff %.3g)" % (where, model.name, float(np.max(np.abs(X - model.X)))),
                      self.ctx({"real": X[:5], "model": model.X[:5]}))
            res.check("rows_and_labels", np.array_equal(np.asarray(real[1]), model.y), "C18_labels:" + _opname(where),
                      "%s: labels of %s are no longer attached to their samples" % (where, model.name),
                      self.ctx({"real": np.asarray(real[1])[:12], "model": model.y[:12]}))
            model.X = X.copy()
            model.y = np.array(real[1], copy=True)
        return True

    def verify_attrs(self, real, model, where):
        ok = (real.is_scaled() == model.scaled and _eq_attr(real.get_scaling_range(), model.range)
              and _eq_attr(real.get_scaling_factor(), model.factor) and _eq_attr(real.get_original_min(), model.omin)
              and _eq_attr(real.get_original_max(), model.omax))
        self.res.check("attributes_carried", ok, "C18_attributes:" + _opname(where),
                       "%s: scaling attributes of %s differ from the model: scaled %s/%s range %s/%s factor %s/%s omin %s/%s" % (
                           where, model.name, real.is_scaled(), model.scaled, real.get_scaling_range(), model.range,
                           real.get_scaling_factor(), model.factor, real.get_original_min(), model.omin), self.ctx())

    def verify_population(self, where, skip=()):
        for real, model in self.objs:
            if any(real is s for s in skip):
                continue
            n = len(model.y)
            X = np.asarray(real[0], dtype=float)
            ok = real.get_length() == n and (n == 0 or (np.array_equal(X.reshape(n, -1) + 0.0, model.X + 0.0)
                                                        and np.array_equal(np.asarray(real[1]), model.y)))
            okattr = (real.is_scaled() == model.scaled and _eq_attr(real.get_scaling_factor(), model.factor)
                      and _eq_attr(real.get_original_min(), model.omin) and _eq_attr(real.get_scaling_range(), model.range))
            self.res.check("population_unaffected", ok and okattr,
                           "C18_other_object_changed:" + _opname(where) + (":data" if not ok else ":attributes"),
                           "%s: a data set (%s) that was not an operand changed its %s" % (where, model.name, "data" if not ok else "scaling attributes"),
                           self.ctx({"real_labels": np.asarray(real[1])[:12], "model_labels": model.y[:12],
                                     "real_factor": real.get_scaling_factor(), "model_factor": model.factor}))
            if not (ok and okattr):
                # resync so that one defect is reported once
                if n and real.get_length() == n:
                    model.X = X.reshape(n, -1).copy()
                    model.y = np.array(real[1], copy=True)
                model.factor = _cp(real.get_scaling_factor())
                model.range = _cp(real.get_scaling_range())


def run_case(case, res):
    from sparseSpACE.DEMachineLearning import DataSet
    rng = random.Random(case["seed"])
    w = World(res, rng)
    X, y, d = gen_dataset(rng)
    if len(y) and rng.random() < 0.2:
        # sample arrays do not have to be float64: whole-number samples stored as integers
        if not np.all(X == np.round(X)):
            X = np.round(X) + 0.0
        X = X.astype(rng.choice([np.int64, np.int32]))
        res.count("integer_typed_samples")
    if len(y) == 0:
        real = DataSet((np.array([]), np.array([])))
        model = M(np.zeros((0, 0)), np.zeros(0))
    elif rng.random() < 0.15 and np.all(y == -1):
        real = DataSet(X.copy())
        model = M(X, y)
    else:
        real = DataSet((X.copy(), y.copy()))
        model = M(X, y)
    w.add(real, model, "D0")
    sizes = [len(y)]
    n_ops = rng.randint(1, 12)
    for step in range(n_ops):
        real, model = rng.choice(w.objs)
        n = len(model.y)
        dd = model.X.shape[1] if n else 0
        op = rng.choice(["scale_range", "scale_range", "scale_factor", "shift_value", "revert", "revert", "shuffle", "move_front",
                         "split_labels", "split_pieces", "split_without", "remove", "remove_bad", "concat", "concat_other"])
        w.kinds.append(op)
        where = "%s#%d" % (op, step)
        before_all = [(r, snapshot(r)) for r, _ in w.objs]
        try:
            do_op(w, DataSet, op, real, model, n, dd, where, rng)
        except Rejected as rj:
            # the library raised: every object must be unchanged
            if len(model.y) == 0:
                # degenerate (empty) operand: the statement says nothing about it; adopt whatever attributes it has now
                model.scaled, model.range, model.factor = real.is_scaled(), _cp(real.get_scaling_range()), _cp(real.get_scaling_factor())
                model.omin, model.omax = _cp(real.get_original_min()), _cp(real.get_original_max())
                res.note("rejected_on_empty_operand:" + op)
                others = [(r, s_) for r, s_ in before_all if r is not real]
            else:
                others = before_all
            unchanged = all(same_snapshot(s_, snapshot(r)) for r, s_ in others)
            res.check("rejection_leaves_objects_unchanged", unchanged, "C18_raise_modified_state:" + op,
                      "%s raised %s but modified a data set" % (where, rj), w.ctx())
            res.note("rejected:" + op + ":" + rj.args[0].split("(")[0])
            w.kinds[-1] = op + "!"
        if len(w.objs) > 7:
            w.objs = w.objs[:1] + w.objs[-6:]
    res.hash = digest([sizes, d, w.kinds])
    res.nontrivial = len(w.kinds) >= 3 and w.n_scaling >= 1 and w.n_moving >= 1
    res.states.add(digest(w.kinds[:4]))
    res.sample = {"n": sizes[0], "d": d, "operations": w.kinds}


def _opname(where):
    head = where.split(":")
    return head[0].split("#")[0] + (":" + head[1] if len(head) > 1 else "")


class Rejected(Exception):
    pass


def call(fn, *a, **k):
    try:
        return fn(*a, **k)
    except (ValueError, TypeError, IndexError, ZeroDivisionError, AttributeError, AssertionError) as ex:
        raise Rejected("%s(%s)" % (type(ex).__name__, str(ex)[:80]))


def do_op(w, DataSet, op, real, model, n, dd, where, rng):
    res = w.res
    if op in ("scale_range", "scale_factor", "shift_value"):
        override = rng.random() < 0.25
        first = (not model.scaled) or override
        Xb = model.X.copy()
        if op == "scale_range":
            r0 = rng.choice([0.0, -1.0, 0.005, rng.uniform(-2, 2)])
            r1 = r0 + rng.choice([1.0, 0.99, rng.uniform(0.1, 3)])
            call(real.scale_range, (r0, r1), override_scaling=override)
            if n == 0:
                return
            mn, mx = Xb.min(axis=0), Xb.max(axis=0)
            rngd = np.where(mx > mn, mx - mn, 1.0)
            sc = (r1 - r0) / rngd
            model.X = (Xb - mn) * sc + r0
            model.range = (r0, r1)
            fac = sc
            Xr = np.asarray(real[0], dtype=float).reshape(n, -1)
            # a dimension whose extremes differ only by rounding left over from earlier operations (spread of a few ulp) is
            # neither "max > min" nor "constant" in a meaningful sense (scikit-learn treats a spread below 10 eps as constant):
            # such a dimension is not judged and the model follows the library there
            degenerate = (mx > mn) & ((mx - mn) <= 1e-13 * np.maximum(1.0, np.maximum(np.abs(mx), np.abs(mn))))
            if degenerate.any():
                res.note("scale_range_on_dimension_with_rounding_level_spread_not_judged")
                rf = np.asarray(real.get_scaling_factor(), dtype=float).reshape(-1) if first else None
                for k in np.where(degenerate)[0]:
                    model.X[:, k] = Xr[:, k]
                    if rf is not None and len(rf) == dd:
                        fac[k] = rf[k]
                    else:
                        fac[k] = 1.0
            for k in range(dd):
                if mx[k] > mn[k] and not degenerate[k]:
                    res.close("scale_range_maps_extremes", [Xr[:, k].min(), Xr[:, k].max()], [r0, r1],
                              1e-12 * max(1.0, abs(r0), abs(r1)), "C18_scale_range_extremes",
                              "%s: minimum/maximum of dimension %d not mapped onto the range ends" % (where, k), w.ctx())
        elif op == "scale_factor":
            fac = rng.choice([2.0, 0.5, rng.uniform(0.1, 4)]) if rng.random() < 0.6 or n == 0 else \
                np.array([rng.uniform(0.2, 3) for _ in range(dd)])
            arg = fac.copy() if isinstance(fac, np.ndarray) else fac
            call(real.scale_factor, arg, override_scaling=override)
            if n == 0:
                return
            model.X = Xb * fac
            model.range = (model.X.min(axis=0), model.X.max(axis=0))
        else:
            sh = rng.uniform(-2, 2) if rng.random() < 0.6 or n == 0 else np.array([rng.uniform(-2, 2) for _ in range(dd)])
            call(real.shift_value, sh, override_scaling=override)
            if n == 0:
                return
            model.X = Xb + sh
            model.range = (model.X.min(axis=0), model.X.max(axis=0))
            fac = 1.0
        w.n_scaling += 1
        if first:
            model.orig = Xb
            model.omin, model.omax = Xb.min(axis=0), Xb.max(axis=0)
            model.factor = _cp(fac)
            model.scaled = True
            model.subset = False
        else:
            if op != "shift_value":
                model.factor = model.factor * fac
        if op == "scale_range" and n and degenerate.any():
            model.factor = _cp(real.get_scaling_factor())      # the model follows the library on the unjudged dimension(s)
        w.verify(real, model, where, tol=1e-12 * 16)
        w.verify_attrs(real, model, where)
        w.verify_population(where, skip=(real,))
    elif op == "revert":
        if not model.scaled:
            call(real.revert_scaling)   # expected to be rejected (nothing to revert)
            # tolerated: if it does not raise it must leave the samples unchanged
            w.verify(real, model, where, tol=1e-12)
            return
        orig = model.orig
        call(real.revert_scaling)
        w.n_scaling += 1
        if n:
            Xr = np.asarray(real[0], dtype=float).reshape(n, -1)
            span = max(1e-300, float(np.max(np.abs(orig))), float(np.max(orig) - np.min(orig)))
            lacks_min = model.omin is not None and not np.array_equal(np.asarray(orig.min(axis=0)), np.asarray(model.omin))
            sig = "C18_revert_wrong" + (":subset_lacks_original_minimum" if lacks_min else "")
            res.close("revert_restores" if not lacks_min else "revert_restores_subset", Xr, orig, 1e-9 * max(1.0, span), sig,
                      "%s: revert_scaling does not restore the samples as they were before the first scaling%s" % (
                          where, " (data set derived from a scaled set; the sample attaining the original minimum is not part of it)" if lacks_min else ""),
                      w.ctx())
            model.X = Xr.copy()
        model.scaled, model.range, model.factor, model.omin, model.omax, model.orig = False, None, None, None, None, None
        model.subset = False
        res.check("labels_after_revert", np.array_equal(np.asarray(real[1]), model.y), "C18_labels:revert", "labels changed by revert")
        w.verify_attrs(real, model, where)
        w.verify_population(where, skip=(real,))
    elif op in ("shuffle", "move_front"):
        bX, by = model.X.copy(), model.y.copy()
        call(real.shuffle if op == "shuffle" else real.move_boundaries_to_front)
        w.n_moving += 1
        if n:
            Xr = np.asarray(real[0], dtype=float).reshape(n, -1)
            p = match_permutation(bX, by, Xr, np.asarray(real[1]))
            res.check("multiset_preserved", p is not None and len(np.asarray(real[1])) == n, "C18_multiset:" + op,
                      "%s: the multiset of (sample,label) pairs changed" % where,
                      w.ctx({"before": list(zip(bX.tolist(), by.tolist()))[:8], "after": list(zip(Xr.tolist(), np.asarray(real[1]).tolist()))[:8]}))
            if p is not None:
                model.X, model.y = Xr.copy(), np.array(real[1], copy=True)
                if model.orig is not None:
                    model.orig = model.orig[p]
            else:
                model.X, model.y = Xr.copy(), np.array(real[1], copy=True)
                model.orig = None if model.orig is None else model.orig
        w.verify_attrs(real, model, where)
        w.verify_population(where, skip=(real,))
    elif op in ("split_labels", "split_pieces", "split_without"):
        if op == "split_labels":
            outs = call(real.split_labels)
            labs = sorted(set(model.y.tolist()))
            res.check("split_outputs", len(outs) == len(labs), "C18_split_labels_count", "%s: %d outputs for %d labels" % (where, len(outs), len(labs)))
            groups = []
            for o in outs:
                ol = np.asarray(o[1])
                lab = ol[0] if len(ol) else None
                res.check("split_outputs", len(set(ol.tolist())) <= 1, "C18_split_labels_mixed", "%s: an output mixes labels" % where)
                groups.append([i for i in range(n) if model.y[i] == lab])
        elif op == "split_pieces":
            pct = rng.choice([0.0, 0.5, 0.8, 1.0, rng.random(), 1.5, -0.2])
            outs = list(call(real.split_pieces, pct))
            pc = pct if 0 <= pct < 1 else 1.0
            kcut = round(n * pc)
            groups = [list(range(0, kcut)), list(range(kcut, n))]
        else:
            outs = list(call(real.split_without_labels))
            groups = [[i for i in range(n) if model.y[i] == -1], [i for i in range(n) if model.y[i] >= 0]]
        w.n_moving += 1
        allp = []
        for o in outs:
            allp += pairs(o[0], o[1]) if o.get_length() else []
        res.check("multiset_preserved", sorted(allp) == pairs(model.X, model.y), "C18_multiset:" + op,
                  "%s: union of the outputs differs from the input as multiset of (sample,label) pairs" % where, w.ctx())
        w.verify(real, model, where + ":input")
        for j, (o, g) in enumerate(zip(outs, groups)):
            m = model.derive(g)
            if o.get_length() == 0 and len(g) == 0:
                m = M(np.zeros((0, 0)), np.zeros(0))
                m.scaled, m.range, m.factor, m.omin, m.omax = model.scaled, _cp(model.range), _cp(model.factor), _cp(model.omin), _cp(model.omax)
                m.subset = model.scaled
            w.add(o, m, "%s.%s%d" % (model.name, op[:7], j))
            w.verify(o, m, where + ":out%d" % j)
            w.verify_attrs(o, m, where + ":out%d" % j)
        w.verify_population(where, skip=tuple(outs))
    elif op in ("remove", "remove_bad"):
        if op == "remove":
            idx = rng.sample(range(n), rng.randint(0, min(n, 6))) if n else []     # distinct positions in arbitrary order
            order = rng.random()
            if order < 0.4:
                idx = sorted(idx)
            elif order < 0.55:
                idx = sorted(idx, reverse=True)
            if rng.random() < 0.15:
                idx = [np.int64(i) for i in idx]
            out = call(real.remove_samples, list(idx))
            idx = [int(i) for i in idx]
            w.n_moving += 1
            keep = [i for i in range(n) if i not in idx]
            mout = model.derive(list(idx))
            newm = model.derive(keep)
            allp = (pairs(out[0], out[1]) if out.get_length() else []) + (pairs(real[0], real[1]) if real.get_length() else [])
            res.check("multiset_preserved", sorted(allp) == pairs(model.X, model.y), "C18_multiset:remove",
                      "%s: removed + remaining samples differ from the input multiset" % where, w.ctx({"indices": idx}))
            model.X, model.y, model.orig = newm.X, newm.y, newm.orig
            model.subset = model.subset or (model.scaled and len(idx) > 0)
            w.verify(real, model, where + ":remaining")
            if len(idx):
                w.add(out, mout, model.name + ".removed")
                w.verify(out, mout, where + ":removed")
                w.verify_attrs(out, mout, where + ":removed")
            w.verify_attrs(real, model, where)
            w.verify_population(where, skip=(real, out))
        else:
            bad = rng.choice([[n], [n + 3], [-1], [0, n] if n else [0], [n + 1, 0] if n else [1]])
            snap = snapshot(real)
            raised = False
            try:
                real.remove_samples(list(bad))
            except Exception as ex:  # any exception type counts as rejection
                raised = True
            res.check("out_of_range_removal_rejected", raised and same_snapshot(snap, snapshot(real)),
                      "C18_out_of_range_removal:" + ("not_rejected" if not raised else "modified"),
                      "%s: remove_samples(%s) on %d samples %s" % (where, bad, n, "did not raise" if not raised else "raised but modified the data"),
                      w.ctx())
            w.verify_population(where)
    elif op in ("concat", "concat_other"):
        if op == "concat" or len(w.objs) < 2:
            # partner with identical scaling: derived from the same object
            other, mother = real, model
            cands = [(r, m) for r, m in w.objs if m.name.startswith(model.name.split(".")[0])]
            other, mother = rng.choice(cands)
        else:
            other, mother = rng.choice(w.objs)
        n2 = len(mother.y)
        d1 = model.X.shape[1] if n else 0
        d2 = mother.X.shape[1] if n2 else 0
        same = scaling_equal(model, mother)
        if n and n2 and d1 != d2:
            try:
                real.concatenate(other)
                res.check("concatenate_refuses_different_dimension", False, "C18_concat_different_dimension", "%s: accepted different dimensions" % where)
            except Exception:
                res.check("concatenate_refuses_different_dimension", True, "", "")
            return
        if n and n2 and not same:
            raised = False
            try:
                real.concatenate(other)
            except ValueError:
                raised = True
            res.check("concatenate_refuses_different_scaling", raised, "C18_concat_different_scaling_accepted",
                      "%s: concatenate accepted data sets with different scalings (self scaled=%s factor=%s range=%s; other scaled=%s factor=%s range=%s)" % (
                          where, model.scaled, model.factor, model.range, mother.scaled, mother.factor, mother.range), w.ctx())
            w.verify_population(where)
            return
        out = call(real.concatenate, other)
        w.n_moving += 1
        if n and n2:
            res.check("concatenate_refuses_different_scaling", True, "", "")
            exp = sorted(pairs(model.X, model.y) + pairs(mother.X, mother.y))
            res.check("multiset_preserved", pairs(out[0], out[1]) == exp, "C18_multiset:concatenate",
                      "%s: concatenation differs from the union of the inputs" % where, w.ctx())
            m = M(np.vstack([model.X, mother.X]), np.concatenate([model.y, mother.y]))
            m.scaled, m.range, m.factor, m.omin, m.omax = model.scaled, _cp(model.range), _cp(model.factor), _cp(model.omin), _cp(model.omax)
            m.orig = None if (model.orig is None or mother.orig is None) else np.vstack([model.orig, mother.orig])
            m.subset = model.subset or mother.subset
            if out is not real and out is not other:
                w.add(out, m, model.name + "+" + mother.name)
                w.verify(out, m, where + ":out")
                w.verify_attrs(out, m, where + ":out")
        w.verify_population(where, skip=(out,))


def scaling_equal(m1, m2):
    if m1.scaled != m2.scaled:
        return False
    if not m1.scaled:
        return True
    return _eq_attr(m1.range, m2.range, 0) and _eq_attr(m1.factor, m2.factor, 0)


def crash_sig(case, ex, where, tb):
    return "C18_crash:%s@%s" % (type(ex).__name__, where)

RULE += (" " + 'Removal index lists in arbitrary / descending order and as numpy integers; integer-typed sample arrays.')
