"""C11 — Romberg extrapolation grids give consistent, exact-to-order weights."""
import contextlib
import io
import random

import numpy as np

from vlib import trees
from vlib import refmodels as rm
from vlib.common import case_seed, digest

RULE = ("dyadic refinement trees (midpoint splits; uniform/one-sided/graded/complete+extra/complete, 3..48 points) on intervals with "
        "exact dyadic arithmetic ([0,1],[-1,1],[1,3],[-0.5,0.25],[0,2^k]) and, as a separate input class, general intervals; every "
        "ExtrapolationGrid variant (3 slice groupings x {ROMBERG_DEFAULT, TRAPEZOID} slices x {ROMBERG_DEFAULT, SIMPSON_ROMBERG} "
        "containers x forced balancing on/off), BalancedExtrapolationGrid on balanced trees, GridBinaryTree forced full trees, and the "
        "GlobalRombergGrid / GlobalBalancedRombergGrid wrappers with cache on/off. Oracle: weight count, zeroth and first moment, "
        "Legendre exactness up to 2m+1 (2m-1 balanced) on complete grids of depth m, full-tree invariant, cache transparency. "
        "distinct = digest(variant, level sequence, interval); non-trivial = non-complete tree or depth>=2")
RULE += (" " + 'The observed set_grid is preceded by 0..2 other trees (mirror image of the same size, or unrelated) set and used on the SAME object, and integrate() is called before or after get_weights().')
RULE += (" General intervals include short decimal end points; in 30% of the cases the caller reuses ONE pair of list objects (set_grid, modify in place, set_grid again).")
RULE += (" Balanced grids are also built on general (short-decimal) intervals; one GlobalRombergGrid object serves 2-3 dimensions whose edges differ in length / position but carry the same tree shape.")
REQUIRED = ["weight_count", "weights_sum_to_length", "linear_exact", "complete_grid_order", "balanced_weights_moments",
            "balanced_complete_order", "full_tree_superset", "full_tree_zero_or_two_children", "wrapper_cache_transparent",
            "integrate_equals_weighted_sum"]
MIN_NONTRIVIAL = {"quick": 600, "thorough": 8000}
CHUNK = {"quick": 100, "thorough": 800}
ASSUMPTIONS = ["Lagrange-interpolating containers and constant-subtraction slices are out of scope (the property excludes them)",
               "general (non dyadic-friendly) intervals are a separate input class"]

FRIENDLY = [(0.0, 1.0), (-1.0, 1.0), (1.0, 3.0), (-0.5, 0.25), (0.0, 2.0), (0.0, 8.0), (0.0, 0.5)]
GENS = ["extrapolation", "extrapolation", "extrapolation", "balanced", "fulltree", "wrapper", "general_interval"]


def cases(tier, seed):
    n = 2000 if tier == "quick" else 50000
    return [{"gen": "tree", "seed": case_seed(seed, "C11", "tree", i)} for i in range(n)]


def balanced_tree(rng, a, b, n_splits, complete_depth=1):
    """every inner node has zero or two children; starts from the complete tree of depth complete_depth"""
    pts = {a: 0, b: 0}
    m = 0.5 * (a + b)
    pts[m] = 1
    leaves = [(a, m, b, 1)]  # (left, point, right, level)
    for _ in range(complete_depth - 1):
        nxt = []
        for l, p, r, L in leaves:
            lm, rm_ = 0.5 * (l + p), 0.5 * (p + r)
            pts[lm] = L + 1
            pts[rm_] = L + 1
            nxt += [(l, lm, p, L + 1), (p, rm_, r, L + 1)]
        leaves = nxt
    for _ in range(n_splits):
        i = rng.randrange(len(leaves))
        l, p, r, L = leaves.pop(i)
        if L >= 10:
            leaves.append((l, p, r, L))
            continue
        lm, rm_ = 0.5 * (l + p), 0.5 * (p + r)
        pts[lm] = L + 1
        pts[rm_] = L + 1
        leaves.append((l, lm, p, L + 1))
        leaves.append((p, rm_, r, L + 1))
    xs = sorted(pts)
    return xs, [pts[x] for x in xs]


def children_ok(levels):
    """every inner point has zero or two children (children = adjacent-range points of level+1 in the tree order)"""
    n = len(levels)

    def rec(lo, hi):
        # inner points strictly between indices lo and hi
        if hi - lo < 2:
            return True, False
        rng_ = range(lo + 1, hi)
        L = min(levels[i] for i in rng_)
        roots = [i for i in rng_ if levels[i] == L]
        if len(roots) != 1:
            return False, True
        r = roots[0]
        okl, hasl = rec(lo, r)
        okr, hasr = rec(r, hi)
        return okl and okr and (hasl == hasr), True
    ok, _ = rec(0, n - 1)
    return ok


def moments(res, w, x, a, b, monitor, sig, ctx):
    w, x = np.asarray(w, dtype=float), np.asarray(x, dtype=float)
    scale = max(float(np.sum(np.abs(w))), b - a)
    res.close(monitor[0], float(np.sum(w)), b - a, 1e-12 * scale * 4, sig + ":sum", "weights do not sum to the interval length", ctx)
    m = max(abs(a), abs(b), 1.0)
    res.close(monitor[1], float(np.sum(w * x)), (b * b - a * a) / 2, 1e-12 * scale * m * 4, sig + ":first_moment",
              "weights do not integrate x exactly", ctx)


def legendre_exact(res, w, x, a, b, maxdeg, monitor, sig, ctx):
    w, x = np.asarray(w, dtype=float), np.asarray(x, dtype=float)
    scale = max(float(np.sum(np.abs(w))), b - a)
    vals = [float(np.sum(w * (rm.legendre_shifted(k, x, a, b) + 0.5))) for k in range(maxdeg + 1)]
    exp = [(b - a) * (1.5 if k == 0 else 0.5) for k in range(maxdeg + 1)]
    res.close(monitor, vals, exp, 1e-10 * scale * 1.5 * max(1, maxdeg), sig,
              "Legendre polynomials up to degree %d are not integrated exactly" % maxdeg, ctx)


def run_case(case, res):
    import sparseSpACE.Extrapolation as E
    import sparseSpACE.Grid as G
    from sparseSpACE.Function import Polynomial1d
    rng = random.Random(case["seed"])
    gen = rng.choice(GENS)
    a, b = rng.choice(FRIENDLY)
    if gen == "general_interval":
        if rng.random() < 0.5:
            a = rng.uniform(-2, 2)
            b = a + rng.uniform(0.1, 3)
        else:   # short decimal end points: midpoints and left + i*h differ in the last bit on such intervals
            a = rng.choice([0.1, -0.3, 0.2, 0.7, -1.1, 0.3, 1.9, -0.7])
            b = a + rng.choice([0.6, 1.2, 1.1, 0.3, 0.9, 2.3])
    style = rng.choice(["uniform", "left", "right", "graded", "complete+", "complete"])
    if style == "complete":
        m = rng.randint(1, 5)
        xs, lv = trees.gen_tree(rng, a, b, n_points=2 ** m + 1, style="uniform", complete_level=m)
    else:
        xs, lv = trees.gen_tree(rng, a, b, style=style)
    xs = [float(x) for x in xs]
    lv = [int(x) for x in lv]
    cfg = {"gen": gen, "a": a, "b": b, "style": style, "n": len(xs), "levels": lv}
    res.sample = {"config": cfg}
    quiet = contextlib.redirect_stdout(io.StringIO())
    depth = trees.max_complete_level(lv)
    complete = len(xs) == 2 ** depth + 1
    if gen in ("extrapolation", "general_interval"):
        grouping = rng.choice(list(E.SliceGrouping))
        sv = rng.choice([E.SliceVersion.ROMBERG_DEFAULT, E.SliceVersion.ROMBERG_DEFAULT, E.SliceVersion.TRAPEZOID])
        cv = rng.choice([E.SliceContainerVersion.ROMBERG_DEFAULT, E.SliceContainerVersion.ROMBERG_DEFAULT, E.SliceContainerVersion.SIMPSON_ROMBERG])
        force = rng.random() < 0.3
        variant = "%s/%s/%s/%s" % (grouping.name, sv.name, cv.name, "forced" if force else "asis")
        cfg["variant"] = variant
        eg = E.ExtrapolationGrid(slice_grouping=grouping, slice_version=sv, container_version=cv, force_balanced_refinement_tree=force)
        sigx = ":general_interval" if gen == "general_interval" else ""
        coeffs = [rng.uniform(-1, 1) for _ in range(4)]
        # history on the SAME object: other trees (mirror image = same size, or unrelated) are set and used first
        for _ in range(rng.choice([0, 0, 1, 2])):
            hmode = rng.random()
            if hmode < 0.35:
                hx, hl = [a + b - x for x in reversed(xs)], list(reversed(lv))
            elif hmode < 0.6:
                hx, hl = trees.ancestor(rng, [float(x) for x in xs], [int(x) for x in lv])   # earlier stage of the same tree
            elif hmode < 0.7:
                hx, hl = list(xs), list(lv)                                                    # the same grid set before
            else:
                hx, hl = trees.gen_tree(rng, a, b, style=rng.choice(["uniform", "left", "right", "graded"]))
                hx, hl = [float(x) for x in hx], [int(x) for x in hl]
            try:
                with quiet:
                    eg.set_grid(list(hx), list(hl))
                    if rng.random() < 0.7:
                        eg.integrate(Polynomial1d(coeffs))
                    else:
                        eg.get_weights()
                res.count("history_steps")
            except AssertionError:
                pass
        val_first = None
        gl, ll = list(xs), list(lv)
        if rng.random() < 0.3:
            # the caller keeps ONE pair of list objects, refines them in place and hands them over again
            hx, hl = trees.gen_tree(rng, a, b, style=rng.choice(["uniform", "left", "right", "graded"]))
            gl, ll = [float(x) for x in hx], [int(x) for x in hl]
            try:
                with quiet:
                    eg.set_grid(gl, ll)
                    eg.get_weights()
                res.count("caller_lists_reused_in_place")
            except AssertionError:
                pass
            gl[:] = list(xs)
            ll[:] = list(lv)
        try:
            with quiet:
                eg.set_grid(gl, ll)
                if rng.random() < 0.5:
                    val_first = eg.integrate(Polynomial1d(coeffs))
                    res.count("integrate_before_get_weights")
                w = eg.get_weights()
        except AssertionError as ex:
            if gen == "general_interval":
                res.check("general_interval_accepted", False, "C11_set_grid_assertion_on_general_interval",
                          "ExtrapolationGrid.set_grid raises AssertionError on a valid refinement tree of a general interval", cfg)
                res.hash = digest(cfg)
                return
            raise
        if gen == "general_interval":
            res.check("general_interval_accepted", True, "", "")
        gx = [float(x) for x in eg.get_grid()]
        res.check("weight_count", len(w) == len(gx) and (force or gx == xs), "C11_weight_count" + sigx,
                  "%d weights for %d grid points (input %d points)" % (len(w), len(gx), len(xs)), cfg)
        if len(w) == len(gx):
            simpson_grouped = cv == E.SliceContainerVersion.SIMPSON_ROMBERG and grouping != E.SliceGrouping.UNIT
            msig = "C11_moments:simpson_container_with_grouped_slices" if simpson_grouped else "C11_moments:" + variant.split("/")[0] + sigx
            mons = ("simpson_grouped_sum", "simpson_grouped_linear") if simpson_grouped else ("weights_sum_to_length", "linear_exact")
            moments(res, w, gx, a, b, mons, msig, cfg)
            glv = [int(x) for x in eg.get_grid_levels()]
            d2 = trees.max_complete_level(glv)
            if len(gx) == 2 ** d2 + 1 and d2 >= 1 and sv == E.SliceVersion.ROMBERG_DEFAULT and cv == E.SliceContainerVersion.ROMBERG_DEFAULT:
                legendre_exact(res, w, gx, a, b, 2 * d2 + 1, "complete_grid_order", "C11_complete_grid_order:" + grouping.name + sigx, cfg)
            # integrate() == sum w f
            with quiet:
                val = eg.integrate(Polynomial1d(coeffs)) if val_first is None else val_first
            ref = float(np.sum(np.asarray(w, dtype=float) * np.polyval(coeffs[::-1], np.asarray(gx))))
            res.close("integrate_equals_weighted_sum", float(np.atleast_1d(val)[0]), ref, 1e-12 * max(1.0, abs(ref)) * 8,
                      "C11_integrate_differs_from_weights", "integrate(f) differs from sum w_i f(x_i)", cfg)
    elif gen == "balanced":
        if rng.random() < 0.4:
            # balanced grids on general intervals: short decimal end points (midpoints recomputed in another form differ in the last bit)
            if rng.random() < 0.4:
                a = rng.uniform(-2, 2)
                b = a + rng.uniform(0.1, 3)
            else:
                a = rng.choice([0.1, -0.3, 0.2, 0.7, -1.1, 0.3, 1.9, -0.7])
                b = a + rng.choice([0.6, 1.2, 1.1, 0.3, 0.9, 2.3])
            cfg.update({"a": a, "b": b})
            res.count("balanced_on_general_interval")
        cdepth = rng.choice([1, 1, 2, 3, 4, 5])
        xs, lv = balanced_tree(rng, a, b, rng.choice([0, 0, rng.randint(1, 14)]), complete_depth=cdepth)
        cfg.update({"n": len(xs), "levels": lv, "complete_depth": cdepth})
        bg = E.BalancedExtrapolationGrid()
        for _ in range(rng.choice([0, 0, 1])):
            hx, hl = balanced_tree(rng, a, b, rng.randint(0, 14))
            with quiet:
                bg.set_grid(list(hx), list(hl))
                bg.get_weights()
            res.count("history_steps")
        with quiet:
            bg.set_grid(list(xs), list(lv))
            w = bg.get_weights()
        res.check("weight_count", len(w) == len(xs), "C11_weight_count:balanced", "weight count differs", cfg)
        moments(res, w, xs, a, b, ("balanced_weights_moments", "balanced_weights_moments"), "C11_moments:balanced", cfg)
        dpt = trees.max_complete_level(lv)
        if len(xs) == 2 ** dpt + 1 and dpt >= 1:
            legendre_exact(res, w, xs, a, b, 2 * dpt - 1, "balanced_complete_order", "C11_balanced_complete_order", cfg)
        # wrapper
        gw = G.GlobalBalancedRombergGrid(np.array([a]), np.array([b]))
        with quiet:
            w2 = gw.compute_1D_quad_weights(list(xs), a, b, 0, grid_levels_1D=list(lv))
        res.check("wrapper_cache_transparent", list(map(float, w2)) == list(map(float, w)), "C11_balanced_wrapper_differs",
                  "GlobalBalancedRombergGrid weights differ from BalancedExtrapolationGrid", cfg)
    elif gen == "fulltree":
        t = E.GridBinaryTree()
        # GridBinaryTree is a process-wide singleton (its result cache cannot be switched on through the public constructor)
        with quiet:
            # the singleton served other trees before (a perfect tree grown level by level, an ancestor or a variant of the observed tree)
            for _ in range(rng.choice([0, 1, 2])):
                hm = rng.random()
                if hm < 0.3:
                    t.init_perfect_tree_with_max_level(a, b, rng.randint(1, 4))
                    if rng.random() < 0.5:
                        t.increment_level_in_each_subtree()
                    t.get_grid()
                else:
                    hx, hl = trees.ancestor(rng, list(xs), list(lv)) if hm < 0.65 else trees.variant(rng, list(xs), list(lv))
                    t.init_tree([float(x) for x in hx], [int(x) for x in hl])
                    if rng.random() < 0.6:
                        t.force_full_tree_invariant()
                    t.get_grid()
                    t.get_grid_levels()
                res.count("history_steps")
            t.init_tree(list(xs), list(lv))
            if rng.random() < 0.3:
                g_before = [float(x) for x in t.get_grid()]
                res.check("tree_roundtrip", g_before == [float(x) for x in xs] and [int(x) for x in t.get_grid_levels()] == [int(x) for x in lv],
                          "C11_tree_roundtrip", "init_tree followed by get_grid / get_grid_levels does not return the given grid", cfg)
            t.force_full_tree_invariant()
            gx = [float(x) for x in t.get_grid()]
            gl = [int(x) for x in t.get_grid_levels()]
            gx2 = [float(x) for x in t.get_grid()]
            gl2 = [int(x) for x in t.get_grid_levels()]
        res.check("full_tree_repeated_readout", gx2 == gx and gl2 == gl, "C11_full_tree_second_readout_differs",
                  "a second get_grid / get_grid_levels on the forced full tree returns something else", cfg)
        d0 = dict(zip(xs, lv))
        d1 = dict(zip(gx, gl))
        res.check("full_tree_superset", all(x in d1 and d1[x] == l for x, l in d0.items()) and gx == sorted(gx) and len(d1) == len(gx),
                  "C11_full_tree_lost_or_changed_points", "forced full tree does not contain every input point with its level", cfg)
        ok, why = rm.is_valid_refinement_tree(gl)
        res.check("full_tree_valid", ok, "C11_full_tree_invalid_levels", "forced full tree violates the refinement-tree rule: %s" % (why,), cfg)
        res.check("full_tree_zero_or_two_children", children_ok(gl), "C11_full_tree_single_child",
                  "forced full tree has an inner point with exactly one child", dict(cfg, result_levels=gl))
    else:  # wrapper
        grouping = rng.choice(list(E.SliceGrouping))
        sv = rng.choice([E.SliceVersion.ROMBERG_DEFAULT, E.SliceVersion.TRAPEZOID])
        cv = rng.choice([E.SliceContainerVersion.ROMBERG_DEFAULT, E.SliceContainerVersion.SIMPSON_ROMBERG])
        g1 = G.GlobalRombergGrid(np.array([a]), np.array([b]), do_cache=True, slice_grouping=grouping, slice_version=sv, container_version=cv)
        g0 = G.GlobalRombergGrid(np.array([a]), np.array([b]), do_cache=False, slice_grouping=grouping, slice_version=sv, container_version=cv)
        xs2, lv2 = trees.gen_tree(rng, a, b)
        with quiet:
            w_a = list(map(float, g1.compute_1D_quad_weights(list(xs), a, b, 0, grid_levels_1D=list(lv))))
            w_other = list(map(float, g1.compute_1D_quad_weights([float(x) for x in xs2], a, b, 0, grid_levels_1D=[int(x) for x in lv2])))
            w_b = list(map(float, g1.compute_1D_quad_weights(list(xs), a, b, 0, grid_levels_1D=list(lv))))
            w_c = list(map(float, g0.compute_1D_quad_weights(list(xs), a, b, 0, grid_levels_1D=list(lv))))
        res.check("wrapper_cache_transparent", w_a == w_b == w_c, "C11_wrapper_cache_changes_weights",
                  "GlobalRombergGrid weights differ between first request, cached request and cache-off grid", cfg)
        simpson_grouped = cv == E.SliceContainerVersion.SIMPSON_ROMBERG and grouping != E.SliceGrouping.UNIT
        moments(res, w_a, xs, a, b, ("simpson_grouped_sum", "simpson_grouped_linear") if simpson_grouped else ("weights_sum_to_length", "linear_exact"),
                "C11_moments:simpson_container_with_grouped_slices" if simpson_grouped else "C11_moments:wrapper", cfg)
        # one wrapper object serves all dimensions of a box: the same tree shape on edges of different length / position
        dd = rng.choice([2, 3])
        boxes = [(a, b)]
        for _ in range(dd - 1):
            a2, b2 = rng.choice(FRIENDLY)
            if (b2 - a2) == (b - a) and rng.random() < 0.7:
                b2 = a2 + 2 * (b2 - a2)
            boxes.append((a2, b2))
        gm1 = G.GlobalRombergGrid(np.array([x[0] for x in boxes]), np.array([x[1] for x in boxes]), do_cache=True,
                                  slice_grouping=grouping, slice_version=sv, container_version=cv)
        for k, (ak, bk) in enumerate(boxes):
            xk = trees.same_shape_on(lv, ak, bk) if k > 0 else list(xs)
            with quiet:
                wk = list(map(float, gm1.compute_1D_quad_weights(list(xk), ak, bk, k, grid_levels_1D=list(lv))))
            moments(res, wk, xk, ak, bk, ("simpson_grouped_sum", "simpson_grouped_linear") if simpson_grouped else ("wrapper_multidim_sum", "wrapper_multidim_linear"),
                    "C11_moments:simpson_container_with_grouped_slices" if simpson_grouped else "C11_moments:wrapper:dimension_%s" % ("0" if k == 0 else "ge1"),
                    dict(cfg, box=boxes, dim=k))
    res.hash = digest(cfg)
    res.nontrivial = (not complete) or depth >= 2
    res.states.add(digest([gen, lv]))


def crash_sig(case, ex, where, tb):
    rng = random.Random(case["seed"])
    gen = rng.choice(GENS)
    return "C11_crash:%s:%s@%s" % (gen, type(ex).__name__, where)
