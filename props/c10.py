"""C10 — hierarchical bases interpolate: surpluses reproduce every nodal value."""
import math
import random

import numpy as np

from vlib import hooks, trees
from vlib import refmodels as rm
from vlib.common import case_seed, digest

RULE = ("local LagrangeGrid p=1..4 / BSplineGrid p=1,3,5 (d<=2, levels 0..4, sub-boxes) and global GlobalLagrangeGrid p=1..4 / "
        "GlobalBSplineGrid p=1,3 on generated refinement trees (d<=2), hash-valued vector functions with 1..3 outputs: integrate() "
        "then interpolate() at all grid points and at random points; an icontract postcondition on the real "
        "HierarchizationLSG.hierarchize_poles_for_dim rebuilds the collocation matrix and checks M*surplus == pole values and full rank; "
        "every Lagrange basis object is evaluated at all its knots; derivatives vs central differences, integrals vs adaptive "
        "quadrature. distinct = digest(grid kind, p, levels/tree); non-trivial = >=5 points in some dimension")
RULE += (" " + 'Global grids are built with boundary points, with zero boundary values, and with the modified boundary basis.')
RULE += (" Global grid objects carry a history in 40% of the cases: the same coordinates with another valid level assignment, or another tree of the same size, hierarchised first.")
REQUIRED = ["collocation_postcondition", "collocation_full_rank", "interpolate_reproduces_nodal_values", "lagrange_cardinality",
            "polynomial_reproduction", "derivative_matches_differences", "basis_integral_matches_quadrature", "interpolate_grid_consistent"]
MIN_NONTRIVIAL = {"quick": 300, "thorough": 5000}
CHUNK = {"quick": 40, "thorough": 400}
ASSUMPTIONS = ["polynomial reproduction of degree min(p, n-1) is asserted on grids/trees with the complete level ceil(log2(p+1)); on other "
               "trees degree<=1 is asserted and the literal reading is attributed to the known finding"]

KINDS = ["local_lagrange", "local_bspline", "global_lagrange", "global_bspline"]
SINK = {"res": None, "evals": 0}


def cases(tier, seed):
    n = 900 if tier == "quick" else 20000
    return [{"gen": "grid", "seed": case_seed(seed, "C10", "grid", i)} for i in range(n)]


class PostBroken(Exception):
    pass


_installed = []


def install_contract():
    """icontract postcondition on the real hierarchisation (records into SINK, never raises)."""
    if _installed:
        return
    import icontract
    from sparseSpACE.Hierarchization import HierarchizationLSG

    def old_values(grid_values):
        return np.array(grid_values, dtype=float, copy=True)

    def collocation_holds(self, grid_values, numPoints, d, result, OLD):
        res = SINK["res"]
        SINK["evals"] += 1
        if res is None:
            return True
        n = int(numPoints[d])
        xs = [float(x) for x in self.grid.get_coordinates_dim(d)]
        M = np.array([[float(self.grid.get_basis(d, j)(xs[i])) for j in range(n)] for i in range(n)])
        shape = (np.shape(OLD.before)[0],) + tuple(int(x) for x in numPoints)
        old = np.asarray(OLD.before, dtype=float).reshape(shape)
        new = np.asarray(result, dtype=float).reshape(shape)
        back = np.moveaxis(np.tensordot(M, new, axes=(1, d + 1)), 0, d + 1)
        s0 = float(np.max(np.abs(old))) or 1.0     # the relation is homogeneous in the values: judged relative to their magnitude
        scale = s0 * max(1.0, float(np.max(np.abs(M)))) * max(1.0, float(np.max(np.abs(new))) / s0)
        res.close("collocation_postcondition", back, old, 1e-9 * scale * max(1, n), "C10_collocation_residual",
                  "hierarchize_poles_for_dim: collocation matrix times returned surpluses does not reproduce the pole values (n=%d, d=%d)" % (n, d),
                  {"n": n, "d": d})
        rank = int(np.linalg.matrix_rank(M))
        res.check("collocation_full_rank", rank == n, "C10_collocation_matrix_singular",
                  "collocation matrix of dimension %d has rank %d < %d" % (d, rank, n), {"points": xs[:20]})
        if n >= 15:
            res.count("qr_path")
        return True

    wrapped = icontract.snapshot(old_values, name="before")(
        icontract.ensure(collocation_holds, error=PostBroken)(HierarchizationLSG.hierarchize_poles_for_dim))
    HierarchizationLSG.hierarchize_poles_for_dim = wrapped
    _installed.append(True)


def vec_hash_function(nout, seed, integer_valued=False, scale=1.0):
    if integer_valued:
        return hooks.VFunction([hooks.comp_int_hash(seed + j) for j in range(nout)], integer_valued=True)
    if scale != 1.0:
        return hooks.VFunction([(lambda p, g=hooks.comp_hash(seed + j): scale * g(p)) for j in range(nout)])
    return hooks.VFunction([hooks.comp_hash(seed + j) for j in range(nout)])


def poly_function(degs_list, s, e):
    d = len(s)
    comps = []
    for mi in degs_list:
        comps.append(lambda x, mi=mi: float(np.prod([float(rm.legendre_shifted(mi[k], x[k], s[k], e[k])) + 0.5 for k in range(d)])))
    return hooks.VFunction(comps)


def basis_checks(res, basis, lo, hi, rng, cfg):
    """derivative vs central differences, integral vs adaptive quadrature for one basis object on [lo,hi]"""
    from scipy import integrate
    knots = sorted(set(float(k) for k in np.atleast_1d(getattr(basis, "knots", [])) if lo <= k <= hi))
    w = hi - lo
    for _ in range(3):
        x = lo + rng.uniform(0.02, 0.98) * w
        if any(abs(x - k) < 1e-3 * w for k in knots):
            continue
        h = 1e-6 * w
        if any(x - h <= k <= x + h for k in knots):
            continue
        try:
            der = float(basis.get_first_derivative(x))
        except (NotImplementedError, AttributeError):
            return
        fd = (float(basis(x + h)) - float(basis(x - h))) / (2 * h)
        scale = max(abs(fd), abs(der), 1.0 / w)
        res.close("derivative_matches_differences", der, fd, 1e-5 * scale, "C10_derivative:" + type(basis).__name__,
                  "%s.get_first_derivative(%r) differs from the central difference of the basis values" % (type(basis).__name__, x), cfg)
    import numpy.polynomial.legendre as leg
    p = int(getattr(basis, "p", 3))
    cg, wg = leg.leggauss(int(p / 2) + 1)
    val = float(basis.get_integral(lo, hi, cg, wg))
    if hasattr(basis, "get_boundaries"):
        blo, bhi = basis.get_boundaries()
        pieces = sorted(set([float(blo), float(bhi)] + [k for k in knots if blo <= k <= bhi]))
    else:
        pieces = sorted(set([lo, hi] + knots))
    ref = 0.0
    for u, v in zip(pieces[:-1], pieces[1:]):
        if v > u:
            ref += integrate.quad(lambda t: float(basis(t)), u, v, epsabs=1e-14, epsrel=1e-13, limit=200)[0]
    res.close("basis_integral_matches_quadrature", val, ref, 1e-10 * max(abs(ref), w), "C10_basis_integral:" + type(basis).__name__,
              "%s.get_integral differs from adaptive quadrature of the basis values" % type(basis).__name__, cfg)


def run_case(case, res):
    import sparseSpACE.Grid as G
    from sparseSpACE.ComponentGridInfo import ComponentGridInfo
    import sparseSpACE.BasisFunctions as BF
    install_contract()
    SINK["res"] = res
    rng = random.Random(case["seed"])
    kind = rng.choice(KINDS)
    d = rng.choice([1, 1, 2])
    nout = rng.choice([1, 2, 3])
    if kind == "local_lagrange":
        p = rng.choice([1, 2, 3, 4])
    elif kind == "local_bspline":
        p = rng.choice([1, 3, 5])
    elif kind == "global_lagrange":
        p = rng.choice([1, 2, 3, 4])
    else:
        p = rng.choice([1, 3])
    bk, a, b = hooks.gen_box(rng, d, ["unit", "unit", "shifted", "negative", "aniso", "dyadic"])
    an, bn = np.array(a), np.array(b)
    int_valued = rng.random() < 0.15     # a function whose values are integers (labels, counts) is a function too
    # functions of very small / large magnitude (all relations are homogeneous in f)
    fscale = 1.0 if (int_valued or rng.random() < 0.8) else rng.choice([1e-9, 1e-12, 1e-15, 1e6])
    f = vec_hash_function(nout, case["seed"], int_valued, fscale)
    if fscale != 1.0:
        res.count("function_magnitude_not_one")
    cfg = {"kind": kind, "d": d, "p": p, "nout": nout, "a": a, "b": b, "box": bk, "integer_valued_function": int_valued, "function_scale": fscale}
    if int_valued:
        res.count("integer_valued_function")
    res.sample = {"config": cfg}
    if kind.startswith("local"):
        boundary = rng.random() < 0.7
        lv = [rng.randint(0 if boundary else 1, 4 if d == 1 else 3) for _ in range(d)]
        from props.c08 import subbox
        s, e = (a, b) if (not boundary or rng.random() < 0.5) else subbox(rng, a, b)
        cfg.update({"levels": lv, "boundary": boundary, "start": s, "end": e})
        grid = (G.LagrangeGrid if kind == "local_lagrange" else G.BSplineGrid)(an, bn, boundary=boundary, p=p)
        sn, en = np.array(s), np.array(e)
        if kind == "local_lagrange" and not boundary:
            try:
                grid.integrate(f, lv, sn, en)
            except (AssertionError, ValueError, IndexError) as ex:
                res.check("local_lagrange_without_boundary_usable", False, "C10_local_lagrange_without_boundary_points_unusable",
                          "LagrangeGrid(boundary=False).integrate raises %s in compute_1D_quad_weights (levels %s)" % (type(ex).__name__, lv), cfg)
                SINK["res"] = None
                res.hash = digest([kind, p, nout, lv, "nb"])
                return
        else:
            grid.integrate(f, lv, sn, en)
        pts = [tuple(float(x) for x in q) for q in grid.getPoints()]
        interp = lambda P: np.asarray(grid.interpolate(P, sn, en, lv))
        npts = [len(grid.get_coordinates_dim(k)) for k in range(d)]
        complete = all(lv[k] >= math.ceil(math.log2(p + 1)) or p == 1 for k in range(d))
        lo_hi = [(s[k], e[k]) for k in range(d)]
        bases = [[grid.get_basis(k, i) for i in range(npts[k])] for k in range(d)]
        coords = [list(map(float, grid.get_coordinates_dim(k))) for k in range(d)]
        interp_grid = lambda C: np.asarray(grid.interpolate_grid(C, sn, en, lv))
        levels_for_hash = lv
    else:
        pts1d, levs = [], []
        for k in range(d):
            n = rng.choice([3, 4, 5, 6, 7, 9, 12, 17] if d == 2 else [3, 4, 5, 7, 9, 12, 17, 24, 33])
            P, L = trees.gen_tree(rng, a[k], b[k], n_points=n)
            pts1d.append(P)
            levs.append(L)
        # boundary variant: with boundary points / zero boundary values / modified (extrapolating) boundary basis
        gb = rng.choice(["boundary", "boundary", "boundary", "zero", "modified"])
        cfg.update({"levels": levs, "n": [len(x) for x in pts1d], "global_boundary": gb})
        res.count("global_" + gb)
        grid = (G.GlobalLagrangeGrid if kind == "global_lagrange" else G.GlobalBSplineGrid)(
            an, bn, boundary=(gb == "boundary"), modified_basis=(gb == "modified"), p=p)
        if gb != "boundary":
            cfg["boundary"] = False
        if rng.random() < 0.4 and not (kind == "global_lagrange" and gb == "modified"):
            # the same grid object (and its hierarchisation operator) was used before: on the SAME coordinates with another
            # valid level assignment, or on an unrelated tree of the same size
            try:
                hmode = rng.random()
                if hmode < 0.4:
                    hl = [trees.balanced_levels(len(x)) for x in pts1d]
                    hp = [list(x) for x in pts1d]
                elif hmode < 0.6:
                    hp, hl = [], []
                    for k in range(d):   # an earlier refinement stage of the observed tree
                        P_, L_ = trees.ancestor(rng, [float(x) for x in pts1d[k]], [int(x) for x in levs[k]])
                        hp.append(P_)
                        hl.append(L_)
                else:
                    hp, hl = [], []
                    for k in range(d):
                        P_, L_ = trees.gen_tree(rng, a[k], b[k], n_points=len(pts1d[k]))
                        hp.append(P_)
                        hl.append(L_)
                grid.set_grid(hp, hl)
                grid.integrate(f, [max(l) for l in hl], an, bn)
                res.count("history_steps")
            except (AssertionError, IndexError, ValueError):
                pass
        if kind == "global_lagrange" and gb == "modified":
            try:
                grid.set_grid(pts1d, levs)
            except IndexError as ex:
                res.check("global_lagrange_modified_usable", False, "C10_global_lagrange_modified_basis_unusable",
                          "GlobalLagrangeGrid(boundary=False, modified_basis=True).set_grid raises %r while building the level-1 basis" % (ex,), cfg)
                SINK["res"] = None
                res.hash = digest([kind, p, nout, levs, "modified"])
                return
        else:
            grid.set_grid(pts1d, levs)
        lvv = [max(l) for l in levs]
        grid.integrate(f, lvv, an, bn)
        cg = ComponentGridInfo(lvv, 1)
        pts = [tuple(float(x) for x in q) for q in grid.getPoints()]
        interp = lambda P: np.asarray(grid.interpolate(P, cg))
        npts = [len(x) - (0 if gb == "boundary" else 2) for x in pts1d]
        need = math.ceil(math.log2(p + 1))
        complete = p == 1 or all(trees.has_complete_level(levs[k], need) for k in range(d))
        lo_hi = [(a[k], b[k]) for k in range(d)]
        bases = [[grid.get_basis(k, i) for i in range(npts[k])] for k in range(d)]
        coords = [list(map(float, grid.get_coordinates_dim(k))) for k in range(d)]
        s, e, sn, en = a, b, an, bn
        interp_grid = lambda C: np.asarray(grid.interpolate_grid(C, cg))
        levels_for_hash = levs
    # (ii) nodal reproduction for every output component
    if pts:
        vals = interp(pts)
        exp = np.array([f.eval(q) for q in pts])
        res.close("interpolate_reproduces_nodal_values", vals, exp, 1e-9 * max(1, max(npts)) * fscale, "C10_interpolation_not_nodal:" + kind,
                  "%s p=%d: interpolate() at the grid points differs from the function values" % (kind, p), cfg)
        # interpolate_grid on the grid's own coordinates must agree with interpolate on their cross product
        try:
            tv = interp_grid(coords)
            ok = tv.shape == vals.shape and bool(np.all(np.abs(tv - vals) <= 1e-9 * max(1, max(npts)) * fscale))
            res.check("interpolate_grid_consistent", ok, "C10_interpolate_grid_differs:" + ("local" if kind.startswith("local") else "global"),
                      "%s: interpolate_grid differs from interpolate on the same points (max %.3g)" % (
                          kind, float(np.max(np.abs(tv - vals))) if tv.shape == vals.shape else float("nan")), cfg)
        except AttributeError as ex:
            res.check("interpolate_grid_consistent", False, "C10_interpolate_grid_attribute_error:" + ("local" if kind.startswith("local") else "global"),
                      "%s: interpolate_grid raises %r" % (kind, ex), cfg)
    # (iii) cardinality of Lagrange basis objects
    for k in range(d):
        for bobj in bases[k]:
            if isinstance(bobj, BF.LagrangeBasisRestricted) and not isinstance(bobj, BF.LagrangeBasisRestrictedModified):
                kn = [float(x) for x in bobj.knots]
                v = [float(bobj(x)) for x in kn]
                expv = [1.0 if i == bobj.index else 0.0 for i in range(len(kn))]
                res.close("lagrange_cardinality", v, expv, 1e-10, "C10_lagrange_not_cardinal",
                          "LagrangeBasisRestricted is not 1 at its own knot and 0 at its other knots", dict(cfg, knots=kn, index=bobj.index))
    # (iv) polynomial reproduction
    literal = [min(p, n - 1) for n in npts]
    if all(n >= 1 for n in npts) and pts:
        strict = literal if complete else [min(1, x) for x in literal]
        if not cfg.get("boundary", True):
            strict = None   # zero boundary conditions / modified boundary basis: polynomials are not in the space
        for degs, monitor, sig in ((strict, "polynomial_reproduction", "C10_polynomial_reproduction:" + kind),
                                   (literal if not complete else None, "polynomial_reproduction_literal",
                                    "C10_degree_min_p_n-1_not_reproduced_without_complete_level:" + kind)):
            if degs is None or not cfg.get("boundary", True):
                continue
            multi = list(dict.fromkeys([tuple(degs)] + [tuple(rng.randint(0, degs[k]) for k in range(d)) for _ in range(3)]))
            fp = poly_function(multi, s, e)
            if kind.startswith("local"):
                grid.integrate(fp, lv, sn, en)
                ip = lambda P: np.asarray(grid.interpolate(P, sn, en, lv))
            else:
                grid.integrate(fp, lvv, an, bn)
                ip = lambda P: np.asarray(grid.interpolate(P, cg))
            R = [tuple(float(s[k] + rng.random() * (e[k] - s[k])) for k in range(d)) for _ in range(32)]
            v = ip(R)
            ex = np.array([fp.eval(q) for q in R])
            res.close(monitor, v, ex, 1e-8 * 1.5 ** d * max(1, max(npts)), sig,
                      "%s p=%d: polynomials of degrees <= %s are not reproduced at random points" % (kind, p, degs), cfg)
    # (v) derivatives and integrals of a few basis objects
    for k in range(d):
        for bobj in rng.sample(list(bases[k]), min(3, len(bases[k]))):
            basis_checks(res, bobj, lo_hi[k][0], lo_hi[k][1], rng, dict(cfg, basis=type(bobj).__name__))
    SINK["res"] = None
    res.hash = digest([kind, p, nout, levels_for_hash, a, b])
    res.nontrivial = max(npts) >= 5
    res.states.add(digest([kind, p, levels_for_hash]))


def crash_sig(case, ex, where, tb):
    rng = random.Random(case["seed"])
    kind = rng.choice(KINDS)
    return "C10_crash:%s:%s@%s" % (kind, type(ex).__name__, where)

RULE += (" " + 'Integer-valued functions and functions at magnitudes 1e-15..1e6 (tolerances homogeneous in the function).')
