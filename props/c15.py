"""C15 — weighted UQ quadrature is a probability measure; moments transform correctly."""
import contextlib
import io
import math
import random

import numpy as np

from vlib import hooks, trees
from vlib import refmodels as rm
from vlib.common import case_seed, digest

RULE = ("(i) GlobalTrapezoidalGridWeighted on weighted refinement trees (splits at the grid's own probability midpoint) for Uniform(a,b) "
        "with equal and different bounds per dimension, Triangle(a,m,b) (boundary on/off) and Normal(mu,sigma) on (-inf,inf) (boundary "
        "off): weights >= 0, sum 1, Uniform == unweighted trapezoid/(b-a), midpoint strictly inside with equal probability left/right; "
        "(ii) real dimension-wise UQ runs (d=1..3, real estimator or seeded hostile error values) with the vector model [g, c*g+e, const] "
        "and set_expectation_variance_Function(): E[c g+e]=cE[g]+e, Var[c g+e]=c^2 Var[g], Var>=0, constant model E=const, Var~0. "
        "distinct = digest(distribution, tree / configuration); non-trivial = non-uniform distribution or >=2 refinement steps")
RULE += (" A fifth of the grid cases use 3..5 stochastic dimensions built from 2..3 prototype distributions that repeat in a pattern ([X,X,Y,Y], [U,N,U,T,T], ...).")
RULE += (" " + 'Dimensions of one family on identical bounds carry DIFFERENT parameters in a third of the cases; reference probabilities and means come from scipy.stats objects built from the distribution description, never from the library. Every relation is judged on the first and on two repeated read-outs of calculate_expectation_and_variance without refinement in between.')
REQUIRED = ["weights_nonnegative", "weights_sum_to_one", "uniform_equals_trapezoid", "midpoint_inside", "midpoint_equal_probability",
            "expectation_affine", "variance_affine", "variance_nonnegative", "constant_model"]
MIN_NONTRIVIAL = {"quick": 300, "thorough": 4000}
CHUNK = {"quick": 30, "thorough": 200}
ASSUMPTIONS = ["distribution families usable in the pinned environment: Uniform, Triangle, Normal",
               "boundary-on weight sums are compared with the code's own 1e-4 warning threshold, boundary-off with 1e-12"]


def cases(tier, seed):
    out = []
    n1, n2 = (1100, 130) if tier == "quick" else (25000, 2500)
    out += [{"gen": "grid", "seed": case_seed(seed, "C15", "grid", i)} for i in range(n1)]
    out += [{"gen": "run", "seed": case_seed(seed, "C15", "run", i), "tier": tier} for i in range(n2)]
    return out


def gen_distribution(rng, d, allow_normal=True):
    """returns (distribution infos list, a, b, kind)"""
    kind = rng.choice(["uniform", "uniform_mixed_bounds", "triangle", "normal", "triangle_mixed", "normal_mixed", "triangle_mixed_bounds",
                       "normal_truncated"]
                      if allow_normal else ["uniform", "uniform_mixed_bounds", "triangle", "triangle_mixed", "triangle_mixed_bounds"])
    if kind == "uniform":
        lo = rng.choice([0.0, -1.0, rng.uniform(-3, 3)])
        hi = lo + rng.choice([1.0, 2.0, rng.uniform(0.2, 5)])
        return [("Uniform",) for _ in range(d)], [lo] * d, [hi] * d, kind
    if kind == "uniform_mixed_bounds":
        a = [rng.uniform(-3, 3) for _ in range(d)]
        b = [x + rng.uniform(0.2, 5) for x in a]
        return [("Uniform",) for _ in range(d)], a, b, kind
    if kind == "triangle":
        lo = rng.choice([0.0, rng.uniform(-2, 2)])
        hi = lo + rng.choice([1.0, rng.uniform(0.5, 4)])
        m = lo + rng.uniform(0.15, 0.85) * (hi - lo)
        return [("Triangle", float(m)) for _ in range(d)], [lo] * d, [hi] * d, kind
    if kind == "triangle_mixed":   # same family and bounds, different parameters per dimension
        lo = rng.choice([0.0, rng.uniform(-2, 2)])
        hi = lo + rng.choice([1.0, 2.0, rng.uniform(0.5, 4)])
        return [("Triangle", float(lo + rng.uniform(0.15, 0.85) * (hi - lo))) for _ in range(d)], [lo] * d, [hi] * d, "triangle"
    if kind == "triangle_mixed_bounds":   # same family and the SAME peak, different bounds per dimension
        m = rng.uniform(-1, 1)
        a = [m - rng.uniform(0.2, 2) for _ in range(d)]
        b = [m + rng.uniform(0.2, 2) for _ in range(d)]
        return [("Triangle", float(m)) for _ in range(d)], a, b, "triangle"
    if kind == "normal_truncated":
        # Normal distributions on a finite or half-infinite support that cuts off noticeable mass (used without boundary points,
        # where the weights are renormalised to the truncated distribution)
        infos, a, b = [], [], []
        for _ in range(d):
            mu, sg = float(rng.uniform(-2, 2)), float(rng.uniform(0.3, 2))
            infos.append(("Normal", mu, sg))
            form = rng.random()
            if form < 0.5:
                a.append(mu - rng.uniform(0.5, 2.5) * sg)
                b.append(mu + rng.uniform(0.5, 2.5) * sg)
            elif form < 0.75:
                a.append(mu - rng.uniform(-0.5, 2.0) * sg)
                b.append(np.inf)
            else:
                a.append(-np.inf)
                b.append(mu + rng.uniform(-0.5, 2.0) * sg)
        return infos, a, b, "normal"
    if kind == "normal_mixed":
        return [("Normal", float(rng.uniform(-2, 2)), float(rng.uniform(0.3, 3))) for _ in range(d)], [-np.inf] * d, [np.inf] * d, "normal"
    mu, sigma = rng.uniform(-2, 2), rng.uniform(0.3, 3)
    return [("Normal", float(mu), float(sigma)) for _ in range(d)], [-np.inf] * d, [np.inf] * d, kind


def gen_pattern(rng):
    """d = 3..5 stochastic dimensions built from 2..3 prototype distributions (family, parameters, bounds) that REPEAT in a pattern
    such as [X, X, Y, Y] or [U, N, U, T, T]: the library shares one distribution object between equal dimensions."""
    protos = []
    fams = rng.sample(["Uniform", "Triangle", "Normal", "Uniform", "Triangle"], rng.choice([2, 3]))
    for fam in fams:
        if fam == "Uniform":
            lo = rng.choice([0.0, rng.uniform(-3, 3)])
            hi = lo + rng.choice([1.0, rng.uniform(0.3, 4)])
            protos.append((("Uniform",), lo, hi))
        elif fam == "Triangle":
            lo = rng.choice([0.0, rng.uniform(-2, 2)])
            hi = lo + rng.choice([1.0, rng.uniform(0.5, 4)])
            protos.append((("Triangle", float(lo + rng.uniform(0.15, 0.85) * (hi - lo))), lo, hi))
        else:
            protos.append((("Normal", float(rng.uniform(-2, 3)), float(rng.uniform(0.3, 2.5))), -np.inf, np.inf))
    d = rng.choice([3, 4, 4, 5])
    while True:
        pat = [rng.randrange(len(protos)) for _ in range(d)]
        if len(set(pat)) >= 2 and len(pat) > len(set(pat)):
            break
    if rng.random() < 0.5:
        pat = sorted(pat)          # [X, X, Y, Y]-like
    infos = [protos[i][0] for i in pat]
    return infos, [protos[i][1] for i in pat], [protos[i][2] for i in pat], "repeated_pattern"


def reference_distribution(info, lo, hi):
    """independent scipy.stats object for a distribution description (never the library's own distribution objects)"""
    from scipy import stats
    if info[0] == "Uniform":
        return stats.uniform(loc=lo, scale=hi - lo)
    if info[0] == "Triangle":
        return stats.triang(c=(info[1] - lo) / (hi - lo), loc=lo, scale=hi - lo)
    if np.isfinite(lo) or np.isfinite(hi):
        return stats.truncnorm((lo - info[1]) / info[2], (hi - info[1]) / info[2], loc=info[1], scale=info[2])
    return stats.norm(loc=info[1], scale=info[2])


def run_grid(case, res):
    import sparseSpACE.Grid as G
    from sparseSpACE.GridOperation import UncertaintyQuantification
    from sparseSpACE.Function import ConstantValue
    rng = random.Random(case["seed"])
    d = rng.choice([1, 1, 2, 2, 3])
    infos, a, b, kind = gen_distribution(rng, d)
    if rng.random() < 0.2:
        infos, a, b, kind = gen_pattern(rng)
        d = len(infos)
        res.count("repeated_distribution_patterns")
    fam = [{"Uniform": "uniform", "Triangle": "triangle", "Normal": "normal"}[i[0]] for i in infos]
    boundary = False if "normal" in fam else rng.random() < 0.5
    mode = rng.choice(hooks.INPUT_MODES) if rng.random() < 0.2 else "float_array"
    an, bn = hooks.typed(a, mode), hooks.typed(b, mode)
    if mode != "float_array":
        res.count("bounds_given_as_" + mode)
    if len(set(infos)) > 1:
        res.count("mixed_parameters_same_bounds")
    if len(set(infos)) == 1 and infos[0][0] == "Triangle" and len(set(zip(a, b))) > 1:
        res.count("same_parameters_mixed_bounds")
    with contextlib.redirect_stdout(io.StringIO()):
        op = UncertaintyQuantification(ConstantValue(1.0), list(infos), an, bn)
        grid = G.GlobalTrapezoidalGridWeighted(an, bn, op, boundary=boundary)
    pts, levs = [], []
    for k in range(d):
        n = rng.choice([3, 4, 5, 6, 7, 9, 12, 17, 24] if boundary else [4, 5, 6, 7, 9, 12, 17, 24])
        P, L = trees.gen_tree(rng, a[k], b[k], n_points=n, mid=lambda x1, x2, k=k: grid.get_mid_point(x1, x2, k), max_depth=14)
        pts.append([float(x) for x in P])
        levs.append(L)
    cfg = {"distribution": kind, "infos": infos, "d": d, "a": [float(x) for x in a], "b": [float(x) for x in b], "boundary": boundary,
           "n": [len(p) for p in pts]}
    res.sample = {"config": cfg, "points_dim0": pts[0][:10]}
    out = io.StringIO()
    with contextlib.redirect_stdout(out):
        grid.set_grid(pts, levs)
    for k in range(d):
        w = np.asarray(grid.weights[k], dtype=float)
        nw = len(pts[k]) - (0 if boundary else 2)
        res.check("weight_count", len(w) == nw, "C15_weight_count", "dimension %d: %d weights for %d points" % (k, len(w), nw), cfg)
        res.check("weights_nonnegative", bool(np.all(w >= 0)) and bool(np.all(np.isfinite(w))), "C15_negative_weight:" + kind,
                  "dimension %d has a negative or non-finite weight: min %r" % (k, float(np.min(w)) if len(w) else None), dict(cfg, dim=k, weights=w[:12]))
        tol = 1e-4 if boundary else 1e-12
        res.close("weights_sum_to_one", float(np.sum(w)), 1.0, tol, "C15_weight_sum:%s:%s" % (kind, "boundary" if boundary else "no_boundary"),
                  "1-D weights of dimension %d (%s) sum to %r" % (k, kind, float(np.sum(w))), dict(cfg, dim=k, weights=w[:12]))
        if boundary and fam[k] != "normal":
            # the weights integrate the piecewise linear interpolant against the density of THIS dimension: sum w_i x_i = E[x_k]
            refd = reference_distribution(infos[k], a[k], b[k])
            res.close("first_moment", float(np.sum(w * np.asarray(pts[k]))), float(refd.mean()), 1e-2 * (b[k] - a[k]),
                      "C15_first_moment:" + kind, "sum w_i x_i of dimension %d differs from the mean of %r" % (k, infos[k]), dict(cfg, dim=k))
        if fam[k] == "uniform":
            ref = rm.trapezoid_weights(pts[k]) / (b[k] - a[k])
            if boundary:
                res.close("uniform_equals_trapezoid", w, ref, 1e-10, "C15_uniform_weights:" + kind,
                          "Uniform weights of dimension %d differ from the unweighted trapezoid weights / (b-a)" % k, dict(cfg, dim=k))
            else:
                inner = ref[1:-1]
                res.close("uniform_equals_trapezoid", w, inner / np.sum(inner), 1e-10, "C15_uniform_weights:" + kind,
                          "Uniform weights (boundary off) of dimension %d are not proportional to the trapezoid weights" % k, dict(cfg, dim=k))
    # midpoints
    dists = op.get_distributions()
    for _ in range(12):
        k = rng.randrange(d)
        if fam[k] == "normal":
            mu, sg = infos[k][1], infos[k][2]
            x1 = rng.choice([-np.inf, mu + sg * rng.uniform(-4, 4), mu - 6 * sg])
            x2 = rng.choice([np.inf, mu + sg * rng.uniform(-4, 4), mu + 6 * sg])
            if not x1 < x2:
                x1, x2 = min(x1, x2), max(x1, x2)
            x1, x2 = max(x1, a[k]), min(x2, b[k])      # intervals of the (possibly truncated) support only
            if not x1 < x2:
                continue
        else:
            u = sorted([rng.random(), rng.random()])
            if u[1] - u[0] < 1e-3:
                continue
            x1, x2 = a[k] + u[0] * (b[k] - a[k]), a[k] + u[1] * (b[k] - a[k])
        with contextlib.redirect_stdout(io.StringIO()):
            mid = grid.get_mid_point(x1, x2, k)
        res.check("midpoint_inside", x1 < mid < x2, "C15_midpoint_outside:" + kind, "get_mid_point(%r,%r) = %r is not strictly inside" % (x1, x2, mid), cfg)
        cdf = reference_distribution(infos[k], a[k], b[k]).cdf
        pl, pr = float(cdf(mid)) - float(cdf(x1)), float(cdf(x2)) - float(cdf(mid))
        if pl + pr > 1e-9:
            res.close("midpoint_equal_probability", pl, pr, 1e-9, "C15_midpoint_unequal_probability:" + kind,
                      "get_mid_point(%r,%r)=%r splits the probability %r / %r" % (x1, x2, mid, pl, pr), cfg)
    res.hash = digest([kind, infos, pts])
    res.nontrivial = kind != "uniform"
    res.states.add(digest([kind, levs]))


def run_run(case, res):
    import sparseSpACE.Grid as G
    from sparseSpACE.GridOperation import UncertaintyQuantification
    from sparseSpACE.spatiallyAdaptiveSingleDimension2 import SpatiallyAdaptiveSingleDimensions2
    from sparseSpACE.ErrorCalculator import ErrorCalculatorSingleDimVolumeGuided
    rng = random.Random(case["seed"])
    d = rng.choice([1, 2, 2, 3])
    infos, a, b, kind = gen_distribution(rng, d)
    boundary = False if kind == "normal" else rng.random() < 0.5
    c_, e_ = rng.choice([3.0, -2.0, 0.5, rng.uniform(-5, 5)]), rng.choice([-2.0, 0.0, 7.0, rng.uniform(-5, 5)])
    if rng.random() < 0.2:
        e_ = rng.choice([1e3, -1e4, 1e5, -1e5, 3e5])      # mean large against the spread: the variance is a small difference of large moments
    const = rng.uniform(-3, 3)
    if kind == "normal":
        mu, sg = infos[0][1], infos[0][2]
        g = lambda p: math.exp(-0.5 * sum(((x - mu) / (2 * sg)) ** 2 for x in p)) + 0.3 * math.tanh(sum(p) - d * mu)
    else:
        w = [bk - ak for ak, bk in zip(a, b)]
        sm = hooks.comp_smooth(case["seed"], d)
        pk = hooks.comp_peak([rng.uniform(0.2, 0.8) for _ in range(d)], 0.3)
        g = lambda p: sm([(x - ak) / wk for x, ak, wk in zip(p, a, w)]) + pk([(x - ak) / wk for x, ak, wk in zip(p, a, w)])
    model = hooks.VFunction([g, lambda p: c_ * g(p) + e_, lambda p: const])
    mode = rng.choice(hooks.INPUT_MODES) if rng.random() < 0.2 else "float_array"
    an, bn = hooks.typed(a, mode), hooks.typed(b, mode)
    if mode != "float_array":
        res.count("bounds_given_as_" + mode)
    lmax = rng.choice([2, 2, 3]) if d < 3 else 2
    profile = rng.choice(["real", "real", "uniform", "sparse", "ties", "single"])
    maxev = rng.choice([30, 80, 150]) if d < 3 else rng.choice([80, 200])
    cfg = {"distribution": kind, "infos": infos, "d": d, "a": [float(x) for x in a], "b": [float(x) for x in b], "boundary": boundary,
           "c": c_, "e": e_, "const": const, "lmax": lmax, "profile": profile, "max_evaluations": maxev,
           "volume_weighting": rng.random() < 0.5}
    res.sample = {"config": cfg}
    with contextlib.redirect_stdout(io.StringIO()):
        op = UncertaintyQuantification(model, list(infos), an, bn)
        grid = G.GlobalTrapezoidalGridWeighted(an, bn, op, boundary=boundary)
        op.set_grid(grid)
        op.set_expectation_variance_Function()
        combi = SpatiallyAdaptiveSingleDimensions2(an, bn, operation=op, norm=2, use_volume_weighting=cfg["volume_weighting"],
                                                   grid_surplusses=op.get_grid(), log_level=100, print_level=100)
        err = ErrorCalculatorSingleDimVolumeGuided() if profile == "real" else hooks.RandErr(case["seed"], profile, d, a, b)
        r = combi.performSpatiallyAdaptiv(1, lmax, err, tol=-1.0, max_evaluations=maxev, print_output=False, do_plot=False)
        E, V = op.calculate_expectation_and_variance(combi)
        E, V = np.array(E, dtype=float), np.array(V, dtype=float)
        # reading the moments is a pure observation: asking again (no refinement in between) gives the same numbers
        reads = [(E, V)]
        for rep in range(2):
            E2, V2 = op.calculate_expectation_and_variance(combi)
            reads.append((np.array(E2, dtype=float), np.array(V2, dtype=float)))
    for rep, (E, V) in enumerate(reads):
        E, V = np.asarray(E, dtype=float), np.asarray(V, dtype=float)
        tag = "" if rep == 0 else ":repeated_readout"
        mom2 = V + E * E
        res.close("expectation_affine", E[1], c_ * E[0] + e_, 1e-10 * (abs(c_) * abs(E[0]) + abs(e_) + 1e-300) * 4 + 1e-12,
                  "C15_expectation_not_affine:" + kind + tag, "read-out #%d: E[c g + e] = %r but c E[g] + e = %r" % (rep + 1, E[1], c_ * E[0] + e_), cfg)
        # Var[c g + e] is computed as mom2 - E^2 with mom2 ~ (c g + e)^2: conditioning ~ (c^2 mom2_g + e^2)
        vscale = (c_ * c_ * abs(mom2[0]) + 2 * abs(c_ * e_ * E[0]) + e_ * e_ + 1e-300)
        res.close("variance_affine", V[1], c_ * c_ * V[0], 1e-12 * vscale * 4, "C15_variance_not_quadratic:" + kind + tag,
                  "read-out #%d: Var[c g + e] = %r but c^2 Var[g] = %r" % (rep + 1, V[1], c_ * c_ * V[0]), cfg)
        res.check("variance_nonnegative", bool(np.all(V >= 0)), "C15_negative_variance" + tag, "negative variance %s" % V, cfg)
        res.close("constant_model", [E[2], V[2]], [const, 0.0], [1e-10 * max(1.0, abs(const)), 1e-10 * max(1.0, const * const)],
                  "C15_constant_model:" + kind + tag, "read-out #%d constant model: E=%r (const %r), Var=%r" % (rep + 1, E[2], const, V[2]), cfg)
        if rep:
            res.count("repeated_readouts")
    E, V = reads[0]
    npts = len(r[6])
    res.hash = digest([cfg, npts])
    res.nontrivial = kind != "uniform" or npts >= 3
    res.states.add(digest([kind, d, npts]))
    res.sample = {"config": cfg, "E": E, "Var": V, "evaluations": npts}


def crash_sig(case, ex, where, tb):
    return "C15_crash:%s:%s@%s" % (case["gen"], type(ex).__name__, where)


def run_case(case, res):
    (run_grid if case["gen"] == "grid" else run_run)(case, res)

RULE += (" " + 'Bounds handed over as lists / tuples / ints; Normal distributions on finite and half-infinite supports (boundary off); affine offsets up to 3e5.')
