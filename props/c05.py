"""C05 — the reported result is the combination of the component results."""
import contextlib
import copy
import io
import random

import numpy as np

from vlib import dimwise, extsplit, hooks
from vlib.common import case_seed, digest

RULE = ("four drivers: (1) StandardCombi on Trapezoidal(boundary on/off)/Simpson/Clenshaw-Curtis/Leja/Gauss-Legendre grids, "
        "(2) DimAdaptiveCombi.perform_combi, (3) dimension-wise and (4) extend-split (coarsening version 0) histories with real "
        "or seeded hostile error estimates; scalar and vector-valued integrands (Genz-like, discontinuous, hash). At EVERY "
        "evaluation of (3)/(4) the reported value is compared with a recomputation from fresh grid/function objects over the "
        "current scheme and with evaluate_final_combi() on a deep copy; at the end with a twin run using reevaluate_at_end=True "
        "and with sum w_i f(p_i) over get_points_and_weights(). distinct = digest(driver, configuration, number of evaluations); "
        "non-trivial = >=2 evaluations (adaptive drivers) or lmax>lmin (standard)")
RULE += (" " + 'Grid variety: (3) runs on GlobalTrapezoidalGrid and on GlobalHighOrderGrid (max_degree 2/3/5, split_up on/off; the surplus grid stays trapezoidal), (4) on Trapezoidal and on the high-order Clenshaw-Curtis / Gauss-Legendre grids with automatic_extend_split (parent-estimation path).')
RULE += (" StandardCombi objects carry a history (other levels, point queries, interpolation) in 40% of the cases; point/weight queries are repeated and must be pure observations.")
REQUIRED = ["recomputation_standard", "points_and_weights_standard", "recomputation_dimadaptive", "recomputation_dimwise",
            "final_combi_on_copy", "reevaluate_twin", "points_and_weights_dimwise", "recomputation_extsplit"]
MIN_NONTRIVIAL = {"quick": 120, "thorough": 1500}
CHUNK = {"quick": 10, "thorough": 50}
ASSUMPTIONS = ["extend-split is exercised in its default coarsening version 0 (versions 1/2 are outside this property)",
               "tolerance 1e-12 * sum of |coefficient| * max |component integral| (5e-11 for the deep-copy / twin clauses)"]


def cases(tier, seed):
    out = []
    for gen, n in (("standard", 160), ("dimadaptive", 60), ("dimwise", 200), ("extsplit", 160)):
        n = n if tier == "quick" else n * 15
        out += [{"gen": gen, "seed": case_seed(seed, "C05", gen, i), "tier": tier} for i in range(n)]
    return out


def make_components(rng, d, seed, nout=None):
    nout = nout or rng.choice([1, 1, 2, 3])
    comps = []
    for j in range(nout):
        kind = rng.choice(["smooth", "peak", "discont", "hash", "multilinear"])
        if kind == "smooth":
            comps.append(hooks.comp_smooth(seed + j, d))
        elif kind == "peak":
            comps.append(hooks.comp_peak([rng.uniform(0.2, 0.8) for _ in range(d)], rng.uniform(0.15, 0.5)))
        elif kind == "discont":
            comps.append(hooks.comp_discont([rng.uniform(0.3, 0.7) for _ in range(d)]))
        elif kind == "hash":
            comps.append(hooks.comp_hash(seed + j))
        else:
            comps.append(hooks.comp_multilinear([(rng.uniform(0.5, 2), rng.uniform(-1, 1)) for _ in range(d)]))
    if rng.random() < 0.1:
        # an integer-valued integrand (counts / labels / indicator sums): eval() returns an integer-typed array
        comps = Comps(hooks.comp_int_hash(seed + j) for j in range(nout))
        comps.integer_valued = True
    return comps


class Comps(list):
    integer_valued = False


def mkf(comps):
    return hooks.VFunction(comps, integer_valued=getattr(comps, "integer_valued", False))


def tol_for(parts, base=1e-12):
    """parts: list of arrays coefficient*integral; tolerance relative to sum of magnitudes"""
    s = np.sum([np.abs(p) for p in parts], axis=0) if parts else 0.0
    return base * np.maximum(s, 1e-300) * max(4, len(parts))


# ---------------------------------------------------------------------------------------------------------
def run_standard(case, res):
    import sparseSpACE.Grid as G
    from sparseSpACE.StandardCombi import StandardCombi
    from sparseSpACE.GridOperation import Integration
    rng = random.Random(case["seed"])
    d = rng.choice([1, 2, 2, 3])
    gname = rng.choice(["Trapezoidal", "TrapezoidalNB", "Simpson", "ClenshawCurtis", "Leja", "GaussLegendre"])
    lmin = rng.choice([1, 1, 2])
    lmax = lmin + rng.choice([0, 1, 2, 2, 3])
    if gname == "Leja":
        lmax = min(lmax, 3)
        lmin = min(lmin, lmax)
    if d == 3:
        lmax = min(lmax, lmin + 2)
    kind, a, b = hooks.gen_box(rng, d, ["unit", "shifted", "negative", "aniso", "dyadic"])
    a, b = np.array(a), np.array(b)

    def mk():
        if gname == "Trapezoidal":
            return G.TrapezoidalGrid(a, b, boundary=True)
        if gname == "TrapezoidalNB":
            return G.TrapezoidalGrid(a, b, boundary=False)
        if gname == "Simpson":
            return G.SimpsonGrid(a, b)
        if gname == "ClenshawCurtis":
            return G.ClenshawCurtisGrid(a, b)
        if gname == "Leja":
            return G.LejaGrid(a, b)
        return G.GaussLegendreGrid(a, b)
    comps = make_components(rng, d, case["seed"])
    f = mkf(comps)
    op = Integration(f=f, grid=mk(), dim=d, print_level=100, log_level=100)
    combi = StandardCombi(a, b, operation=op, print_output=False, log_level=100, print_level=100)
    cfg = {"grid": gname, "d": d, "lmin": lmin, "lmax": lmax, "a": a.tolist(), "b": b.tolist(), "nout": len(comps)}
    res.sample = {"config": cfg}
    with contextlib.redirect_stdout(io.StringIO()):
        if rng.random() < 0.4:
            # the object (operation, grid, scheme generator) was used before: other levels, point queries, the same levels
            for _ in range(rng.choice([1, 2])):
                l0 = rng.randint(1, max(1, lmax - 1))
                combi.perform_operation(l0, min(lmax, l0 + rng.choice([0, 1, 2])))
                if rng.random() < 0.5:
                    combi.get_points_and_weights()
                if rng.random() < 0.3:
                    combi([tuple(float(a[k] + rng.random() * (b[k] - a[k])) for k in range(d))])
            res.count("standard_object_history")
        scheme, err, result = combi.perform_operation(lmin, lmax)
    f2 = mkf(comps)
    g2 = mk()
    parts = [np.atleast_1d(g2.integrate(f2, list(g.levelvector), a, b)) * g.coefficient for g in scheme]
    exp = np.sum(parts, axis=0)
    res.close("recomputation_standard", np.asarray(result, dtype=float), exp, tol_for(parts), "C05_standard_result_differs:" + gname,
              "StandardCombi result differs from the coefficient-weighted sum of independently computed component integrals", cfg)
    pts, w = combi.get_points_and_weights()
    vals = np.array([f2.eval(tuple(p)) for p in pts])
    sw = (vals * np.asarray(w)[:, None]).sum(axis=0)
    tol = 1e-12 * np.maximum(np.sum(np.abs(vals * np.asarray(w)[:, None]), axis=0), 1e-300) * 8
    res.close("points_and_weights_standard", sw, np.asarray(result, dtype=float), tol, "C05_standard_points_weights:" + gname,
              "sum w_i f(p_i) over get_points_and_weights() differs from the reported integral", cfg)
    pts2, w2 = combi.get_points_and_weights()      # asking again is a pure observation
    res.check("points_and_weights_repeatable", len(pts2) == len(pts) and np.array_equal(np.asarray(w2, dtype=float), np.asarray(w, dtype=float))
              and np.array_equal(np.asarray(pts2, dtype=float), np.asarray(pts, dtype=float)), "C05_standard_points_weights_change_on_second_request:" + gname,
              "a second get_points_and_weights() returns different points or weights", cfg)
    res.hash = digest(cfg)
    res.nontrivial = lmax > lmin
    res.states.add(gname)
    res.sample = {"config": cfg, "result": result, "n_points": len(pts)}


def run_dimadaptive(case, res):
    import sparseSpACE.Grid as G
    from sparseSpACE.DimAdaptiveCombi import DimAdaptiveCombi
    from sparseSpACE.GridOperation import Integration
    rng = random.Random(case["seed"])
    d = rng.choice([2, 2, 3])
    kind, a, b = hooks.gen_box(rng, d, ["unit", "shifted", "dyadic"])
    a, b = np.array(a), np.array(b)
    gname = rng.choice(["Trapezoidal", "ClenshawCurtis", "GaussLegendre"])

    def mk():
        return {"Trapezoidal": lambda: G.TrapezoidalGrid(a, b), "ClenshawCurtis": lambda: G.ClenshawCurtisGrid(a, b),
                "GaussLegendre": lambda: G.GaussLegendreGrid(a, b)}[gname]()
    nout = rng.choice([1, 2])
    comps = [hooks.comp_peak([rng.uniform(0.2, 0.8) for _ in range(d)], rng.uniform(0.2, 0.6)) if rng.random() < 0.5
             else (lambda g: (lambda p: 2.0 + g(p)))(hooks.comp_smooth(case["seed"] + j, d)) for j in range(nout)]
    f = mkf(comps)
    # reference: fine Gauss-Legendre product rule from the harness
    from vlib import refmodels as rm
    ref = rm.gauss_legendre_box(lambda P: np.array([mkf(comps).eval(tuple(p)) for p in P]), a, b, 12 if d == 2 else 8)
    op = Integration(f=f, grid=mk(), dim=d, reference_solution=np.atleast_1d(ref), print_level=100, log_level=100)
    c = DimAdaptiveCombi(a, b, op)
    tol = rng.choice([1e-2, 1e-3, 1e-4])
    maxp = rng.choice([60, 150, 400])
    cfg = {"grid": gname, "d": d, "a": a.tolist(), "b": b.tolist(), "tol": tol, "max_points": maxp, "nout": nout}
    res.sample = {"config": cfg}
    with contextlib.redirect_stdout(io.StringIO()):
        scheme, diff, combiintegral, errors, num_points = c.perform_combi(1, 2, tol, maxp)
    f2, g2 = mkf(comps), mk()
    parts = [np.atleast_1d(g2.integrate(f2, list(g.levelvector), a, b)) * g.coefficient for g in scheme]
    exp = np.sum(parts, axis=0)
    res.close("recomputation_dimadaptive", np.atleast_1d(np.asarray(combiintegral, dtype=float)), exp, tol_for(parts),
              "C05_dimadaptive_result_differs", "DimAdaptiveCombi result differs from the recomputation over the returned scheme", cfg)
    res.close("dimadaptive_reported_difference", np.atleast_1d(diff), np.abs(np.atleast_1d(combiintegral) - np.atleast_1d(ref)), 1e-13 + 0 * exp,
              "C05_dimadaptive_difference", "returned difference is not |result - reference|", cfg)
    res.hash = digest([cfg, len(scheme)])
    res.nontrivial = len(errors) >= 1
    res.states.add(digest(sorted(tuple(int(x) for x in g.levelvector) for g in scheme)))
    res.sample = {"config": cfg, "final_scheme": [(list(map(int, g.levelvector)), g.coefficient) for g in scheme][:12], "refinements": len(errors)}


# ---------------------------------------------------------------------------------------------------------
def dw_grid(cfg):
    from sparseSpACE import Grid as G
    a, b = np.array(cfg["a"], dtype=float), np.array(cfg["b"], dtype=float)
    kind = cfg.get("grid", "trapezoidal")
    if kind == "highorder":
        return G.GlobalHighOrderGrid(a=a, b=b, boundary=True, max_degree=cfg.get("max_degree", 5), split_up=cfg.get("split_up", True))
    if kind == "simpson":
        return G.GlobalSimpsonGrid(a=a, b=b, boundary=True)
    return G.GlobalTrapezoidalGrid(a=a, b=b, boundary=cfg["boundary"])


class ObsDW(hooks.Observer):
    def __init__(self, res, cfg, comps, err):
        super().__init__(cfg["steps"], err, max_points=3000)
        self.res, self.cfg, self.comps = res, cfg, comps
        self.trace = []
        self.quiet = False     # quiet histories: nothing is read from the live object before the final state

    def after_evaluate(self, c, r):
        super().after_evaluate(c, r)
        if not self.quiet:
            self.judge(c, "evaluation #%d" % self.evals)

    def judge(self, c, where):
        reported = np.array(c.operation.get_result(), dtype=float)
        f2 = mkf(self.comps)
        g2 = dw_grid(self.cfg)
        parts = []
        for g in c.scheme:
            coords, levels, _ = c.get_point_coord_for_each_dim(g.levelvector)
            g2.set_grid(coords, levels)
            parts.append(np.atleast_1d(g2.integrate(f2, g.levelvector, c.a, c.b)) * g.coefficient)
        exp = np.sum(parts, axis=0)
        self.res.close("recomputation_dimwise", reported, exp, tol_for(parts), "C05_dimwise_result_differs",
                       "%s: reported value differs from the recomputation over the current scheme with fresh objects" % where,
                       {"cfg": self.cfg})
        if self.evals % 2 == 1 or self.evals <= 2 or self.quiet:
            cc = copy.deepcopy(c)
            cc.vobs = None
            val, _ = cc.evaluate_final_combi()
            self.res.close("final_combi_on_copy", np.array(val, dtype=float), reported, 50 * tol_for(parts),
                           "C05_evaluate_final_combi_differs:dimwise",
                           "%s: evaluate_final_combi() on a deep copy differs from the reported value" % where, {"cfg": self.cfg})
        self.trace.append([self.evals, reported.tolist()])


def run_dimwise(case, res):
    rng = random.Random(case["seed"])
    cfg = dimwise.gen_config(rng, case.get("tier", "quick"), dims=(1, 2, 2, 3), max_steps=8)
    cfg["profile"] = rng.choice(["real", "real", "uniform", "sparse", "ties", "hotspot", "altdim"])
    # nodal global grids whose 1-D weights are not the plain trapezoidal ones as well (the surplus grid stays trapezoidal)
    cfg["grid"] = rng.choice(["trapezoidal", "highorder"])
    if cfg["grid"] != "trapezoidal":
        cfg["boundary"] = True
        cfg["max_degree"] = rng.choice([2, 3, 5])
        cfg["split_up"] = rng.random() < 0.5
    d = cfg["d"]
    comps = make_components(rng, d, case["seed"])
    res.sample = {"config": cfg}
    f = mkf(comps)
    err = hooks.RandErr(cfg["errseed"], cfg["profile"], d, cfg["a"], cfg["b"])
    obs = ObsDW(res, cfg, comps, err)
    obs.quiet = rng.random() < 0.3
    cfg["quiet_until_final_state"] = obs.quiet
    c = dimwise.build(cfg, f, obs, grid=dw_grid(cfg))
    res.count("grid_" + cfg["grid"])
    dimwise.run(c, cfg, err)
    if obs.quiet:
        res.count("quiet_histories")
        obs.judge(c, "final state (after %d evaluations)" % obs.evals)
    final = np.array(c.operation.get_result(), dtype=float)
    # (d) points and weights of the final state
    pts, w = c.get_points_and_weights()
    f2 = mkf(comps)
    vals = np.array([f2.eval(tuple(p)) for p in pts])
    sw = (vals * np.asarray(w)[:, None]).sum(axis=0)
    tol = 1e-12 * np.maximum(np.sum(np.abs(vals * np.asarray(w)[:, None]), axis=0), 1e-300) * 8
    res.close("points_and_weights_dimwise", sw, final, tol, "C05_dimwise_points_weights",
              "sum w_i f(p_i) over get_points_and_weights() differs from the reported integral", {"cfg": cfg})
    pts2, w2 = c.get_points_and_weights()
    res.check("points_and_weights_repeatable", len(pts2) == len(pts) and np.array_equal(np.asarray(w2, dtype=float), np.asarray(w, dtype=float)),
              "C05_dimwise_points_weights_change_on_second_request", "a second get_points_and_weights() returns different weights", {"cfg": cfg})
    res.close("result_unchanged_by_point_queries", np.array(c.operation.get_result(), dtype=float), final, 0.0 * final,
              "C05_dimwise_result_changed_by_point_query", "get_points_and_weights() changed the stored result", {"cfg": cfg})
    # (c) twin runs with the stop fixed by max_evaluations
    npts = c.get_total_num_points()
    outs = []
    for rev in (False, True):
        ft = mkf(comps)
        et = hooks.RandErr(cfg["errseed"], cfg["profile"], d, cfg["a"], cfg["b"])
        ot = hooks.Observer(10 ** 9, et, max_depth=10 ** 9, max_points=None)
        ct = dimwise.build(cfg, ft, ot, grid=dw_grid(cfg))
        r = dimwise.run(ct, cfg, et, max_evaluations=npts - 1, reevaluate_at_end=rev)
        outs.append(None if r is None else np.array(r[3], dtype=float))
        twin_evals = None if r is None else len(r[6])
    if outs[0] is not None and outs[1] is not None:
        scale = np.maximum(np.abs(outs[0]), np.sum(np.abs(vals * np.asarray(w)[:, None]), axis=0))
        res.close("reevaluate_twin", outs[1], outs[0], 1e-10 * np.maximum(scale, 1e-300), "C05_reevaluate_at_end_changes_result:dimwise",
                  "the result with reevaluate_at_end=True differs from the result without", {"cfg": cfg})
        if twin_evals == obs.evals:
            res.close("twin_equals_observed", outs[0], final, 1e-10 * np.maximum(scale, 1e-300), "C05_twin_not_reproducible:dimwise",
                      "a second run with the same inputs and the same number of evaluations does not reproduce the observed run", {"cfg": cfg})
        else:   # the observed history ended with refinements that added no point: max_evaluations cannot stop a twin there
            res.note("twin_stops_at_other_evaluation")
    res.hash = digest([cfg, obs.evals])
    res.nontrivial = obs.evals >= 2
    res.states.add(dimwise.structure_digest(c))
    res.sample = {"config": cfg, "evaluations": obs.evals, "trace": obs.trace[:6]}


class ObsES(hooks.Observer):
    def __init__(self, res, cfg, comps, err):
        super().__init__(cfg["steps"], err, max_points=4000)
        self.res, self.cfg, self.comps = res, cfg, comps
        self.trace = []
        self.parts_scale = None
        self.quiet = False     # quiet histories: nothing is read from the live object before the final state

    def deepest(self, c):
        return 0

    def after_evaluate(self, c, r):
        super().after_evaluate(c, r)
        if not self.quiet:
            self.judge(c, "evaluation #%d" % self.evals)

    def judge(self, c, where):
        reported = np.array(c.operation.get_result(), dtype=float)
        f2 = mkf(self.comps)
        g2 = extsplit.make_grid(self.cfg)
        parts = []
        for area in extsplit.leaves(c):
            for g in c.scheme:
                lv, do_compute = c.coarsen_grid(g.levelvector, area)
                if do_compute:
                    parts.append(np.atleast_1d(g2.integrate(f2, lv, area.start, area.end)) * g.coefficient)
        exp = np.sum(parts, axis=0)
        self.parts_scale = np.sum(np.abs(np.array(parts)), axis=0) if parts else None
        self.res.close("recomputation_extsplit", reported, exp, tol_for(parts), "C05_extsplit_result_differs",
                       "%s: reported value differs from the recomputation over leaves x computed component grids" % where,
                       {"cfg": self.cfg, "leaves": len(extsplit.leaves(c))})
        if self.evals % 2 == 1 or self.evals <= 2 or self.quiet:
            cc = copy.deepcopy(c)
            cc.vobs = None
            with contextlib.redirect_stdout(io.StringIO()):
                val, _ = cc.evaluate_final_combi()
            self.res.close("final_combi_on_copy", np.array(val, dtype=float), reported, 50 * tol_for(parts),
                           "C05_evaluate_final_combi_differs:extsplit",
                           "%s: evaluate_final_combi() on a deep copy differs from the reported value" % where, {"cfg": self.cfg})
        self.trace.append([self.evals, reported.tolist()])


def run_extsplit(case, res):
    rng = random.Random(case["seed"])
    cfg = extsplit.gen_config(rng, case.get("tier", "quick"), versions=(0,), dims=(2, 2, 3))
    cfg["steps"] = min(cfg["steps"], 8)
    # high-order local grids switch the automatic extend/split decision to the parent-estimation path
    cfg["grid"] = rng.choice(["Trapezoidal", "Trapezoidal", "ClenshawCurtis", "GaussLegendre"])
    if cfg["grid"] != "Trapezoidal":
        cfg["boundary"] = True
        cfg["automatic"] = rng.random() < 0.7
        cfg["steps"] = min(cfg["steps"], 5)
        # split_single_dim with a high-order grid aborts with the library's own sibling-count assertion on the
        # unchanged tree (loud, no value reported; see DESIGN.md section 8 "observations") -> not generated
        cfg["single_dim"] = False
    d = cfg["d"]
    if cfg["grid"] == "Trapezoidal" and rng.random() < 0.25:
        cfg["grid"] = "TrapezoidalMixedFlags"
        flags = [rng.random() < 0.5 for _ in range(d)]
        flags[0], flags[1] = (True, False) if rng.random() < 0.5 else (False, True)
        cfg["flags"], cfg["flags_base"] = flags, rng.random() < 0.5
        cfg["automatic"] = False   # the automatic heuristic asserts on grids without boundary points (known finding of C07)
    comps = make_components(rng, d, case["seed"])
    res.sample = {"config": cfg}
    res.count("grid_" + cfg["grid"])
    f = mkf(comps)
    err = extsplit.make_err(cfg)
    obs = ObsES(res, cfg, comps, err if cfg["profile"] != "real" else None)
    obs.quiet = rng.random() < 0.3
    cfg["quiet_until_final_state"] = obs.quiet
    c = extsplit.build(cfg, f, obs)
    with contextlib.redirect_stdout(io.StringIO()):
        extsplit.run(c, cfg, err)
    if obs.quiet:
        res.count("quiet_histories")
        obs.judge(c, "final state (after %d evaluations)" % obs.evals)
        obs.quiet = False
    if obs.steps >= 1 and rng.random() < 0.25:
        # the documented way to go on from an existing refinement: performSpatiallyAdaptiv(start levels, refinement_container=current one);
        # the observer keeps comparing every reported value with the recomputation and with evaluate_final_combi on a copy
        obs.max_steps = obs.steps + rng.randint(1, 3)
        cfg["restarted_with_refinement_container"] = True
        res.count("restarts_with_refinement_container")
        with contextlib.redirect_stdout(io.StringIO()):
            extsplit.run(c, cfg, err, refinement_container=c.refinement)
        res.hash = digest([cfg, obs.evals])
        res.nontrivial = obs.evals >= 2
        res.states.add(extsplit.structure_digest(c))
        res.sample = {"config": cfg, "evaluations": obs.evals, "trace": obs.trace[:6]}
        return
    final = np.array(c.operation.get_result(), dtype=float)
    npts = c.get_total_num_points()
    outs = []
    for rev in (False, True):
        ft = mkf(comps)
        et = extsplit.make_err(cfg)
        ot = hooks.Observer(10 ** 9, et if cfg["profile"] != "real" else None, max_depth=10 ** 9, max_points=None)
        ot.deepest = lambda c_: 0
        ct = extsplit.build(cfg, ft, ot)
        with contextlib.redirect_stdout(io.StringIO()):
            r = extsplit.run(ct, cfg, et, max_evaluations=npts - 1, reevaluate_at_end=rev)
        outs.append(None if r is None else np.array(r[3], dtype=float))
        twin_evals = None if r is None else len(r[6])
    if outs[0] is not None and outs[1] is not None:
        # conditioning: the result is a signed sum of per-area / per-grid contributions (recorded by the observer)
        scale = np.maximum(np.abs(outs[0]), 1e-300) + np.abs(final) + (obs.parts_scale if obs.parts_scale is not None else 0.0)
        res.close("reevaluate_twin", outs[1], outs[0], 1e-9 * scale, "C05_reevaluate_at_end_changes_result:extsplit",
                  "the result with reevaluate_at_end=True differs from the result without", {"cfg": cfg})
        if twin_evals == obs.evals:
            res.close("twin_equals_observed", outs[0], final, 1e-9 * scale, "C05_twin_not_reproducible:extsplit",
                      "a second run with the same inputs and the same number of evaluations does not reproduce the observed run", {"cfg": cfg})
        else:
            res.note("twin_stops_at_other_evaluation")
    res.hash = digest([cfg, obs.evals])
    res.nontrivial = obs.evals >= 2
    res.states.add(extsplit.structure_digest(c))
    res.sample = {"config": cfg, "evaluations": obs.evals, "trace": obs.trace[:6]}


def run_case(case, res):
    {"standard": run_standard, "dimadaptive": run_dimadaptive, "dimwise": run_dimwise, "extsplit": run_extsplit}[case["gen"]](case, res)

RULE += (" " + 'Integer-valued integrands; a third of the adaptive histories is quiet (judged on the final state only); typed domains.')
