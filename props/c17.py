"""C17 — density-estimation caching and size-dependent code paths are transparent."""
import contextlib
import io
import random

import numpy as np

from vlib import demodel, hooks, trees
from vlib.common import case_seed, digest
from props.c16 import gen_data, make_op, Dummy

RULE = ("(i) twin dimension-wise DensityEstimation runs on the same data that differ only in reuse_old_values, refined by the same "
        "stateless seeded error values (identical histories by construction), d=2 (3 in thorough), with/without labels, lambda in "
        "{0,1e-3,0.1}, rebalancing on/off, small grids and grids that cross the 200-point threshold: scheme, surplus keys, surpluses "
        "and combi(x) at 200 probe points compared at EVERY evaluation; (ii) hand-over driver: one operation is stepped through 2-3 "
        "successive nested refinement-tree grids (initialize_evaluation_dimension_wise / calculate_operation_dimension_wise / "
        "post_processing in the order of the adaptive loop) next to a reuse-off twin and the reference model, grids above 200 points; "
        "(iii) the cached matrix entries are audited against the reference Gram entries; (iv) interpolation just below / above the "
        "threshold vs the reference interpolant. distinct = digest(driver, data digest, grids); non-trivial = twin run with >=3 "
        "evaluations or a hand-over sequence with a grid of >=200 points")
RULE += (" (v) the right-hand side of uniform grids just below / above the threshold (incl. data on grid lines and grid points) vs the mean-of-hats reference.")
RULE += (" At every evaluation of the twin runs combi(x) is also compared with the hat expansion of the stored surpluses on the current 1-D point sets (absolute reference: caches shared by both twins cannot hide).")
REQUIRED = ["rhs_size_paths", "interpolation_vs_reference", "twin_scheme", "twin_surplus_keys", "twin_surpluses", "twin_interpolation", "handover_b_vs_reference",
            "handover_surpluses_vs_twin", "handover_reused_entries", "R_cache_audit", "interpolation_size_paths"]
MIN_NONTRIVIAL = {"quick": 40, "thorough": 600}
CHUNK = {"quick": 3, "thorough": 20}
ASSUMPTIONS = ["refinement decisions come from a stateless geometry-hash estimator so that both twins take identical decisions",
               "mass lumping off (the matrix-entry cache is only used without it)"]


def cases(tier, seed):
    n1, n2, n3, n4 = (36, 8, 40, 90) if tier == "quick" else (900, 100, 800, 1500)
    out = [{"gen": "twin", "seed": case_seed(seed, "C17", "twin", i), "tier": tier} for i in range(n1)]
    out += [{"gen": "twin_large", "seed": case_seed(seed, "C17", "twin_large", i), "tier": tier} for i in range(n2)]
    out += [{"gen": "handover", "seed": case_seed(seed, "C17", "handover", i), "tier": tier} for i in range(n3)]
    out += [{"gen": "interp", "seed": case_seed(seed, "C17", "interp", i), "tier": tier} for i in range(n4)]
    return out


class Rec(hooks.Observer):
    def __init__(self, steps, P, max_points):
        super().__init__(steps, None, max_depth=14, max_points=None)
        self.P = P
        self.max_grid_points = max_points
        self.evals_log = []

    def after_evaluate(self, c, r):
        super().after_evaluate(c, r)
        op = c.operation
        scheme = sorted((tuple(int(x) for x in g.levelvector), float(g.coefficient)) for g in c.scheme)
        sur = {k: np.array(v, dtype=float, copy=True) for k, v in op.surpluses.items() if k in dict(scheme)}
        with contextlib.redirect_stdout(io.StringIO()):
            vals = np.asarray(c(self.P), dtype=float).reshape(len(self.P))
        # absolute reference for the interpolated density: hat expansion of the stored surpluses on the CURRENT 1-D point sets
        ref = np.zeros(len(self.P))
        ok_ref = True
        for lv, coef in scheme:
            if lv not in sur:
                ok_ref = False
                break
            coords, _, _ = c.get_point_coord_for_each_dim(list(lv))
            xs = [[float(x) for x in cd] for cd in coords]
            if int(np.prod([len(x) - 2 for x in xs])) != len(sur[lv]):
                ok_ref = False
                break
            ref += coef * demodel.interpolate(xs, sur[lv], self.P)
        self.evals_log.append({"scheme": scheme, "surpluses": sur, "interp": vals, "sizes": sorted(len(v) for v in sur.values()),
                               "reference": ref if ok_ref else None})

    def before_refine(self, c):
        super().before_refine(c)
        if self.evals_log and max(self.evals_log[-1]["sizes"]) > self.max_grid_points:
            raise hooks.StopHistory()


def run_de(cfg, X, labels, reuse, P):
    import sparseSpACE.Grid as G
    from sparseSpACE.GridOperation import DensityEstimation
    from sparseSpACE.spatiallyAdaptiveSingleDimension2 import SpatiallyAdaptiveSingleDimensions2
    d = cfg["d"]
    a, b = np.zeros(d), np.ones(d)
    grid = G.GlobalTrapezoidalGrid(a=a, b=b, boundary=False)
    with contextlib.redirect_stdout(io.StringIO()):
        op = DensityEstimation(X.copy(), d, grid=grid, masslumping=cfg.get("masslumping", False), lambd=cfg["lambda"], classes=None if labels is None else labels.copy(),
                               reuse_old_values=reuse, numeric_calculation=False, print_output=False, pre_scaled_data=True,
                               log_level=100, print_level=100)
        cls = hooks.observed(SpatiallyAdaptiveSingleDimensions2)
        c = cls(a, b, operation=op, margin=cfg["margin"], rebalancing=cfg["rebalancing"], version=cfg["version"], log_level=100, print_level=100)
        obs = Rec(cfg["steps"], P, cfg["max_grid_points"])
        c.vobs = obs
        err = hooks.RandErr(cfg["errseed"], "geomhash", d, [0.0] * d, [1.0] * d)
        hooks.run_adaptive(c, lmin=cfg["lmin"], lmax=cfg["lmax"], errorOperator=err, tol=-1.0, max_evaluations=10 ** 9,
                           do_plot=False, print_output=False)
    return c, op, obs


def run_twin(case, res, large=False):
    rng = random.Random(case["seed"])
    tier = case.get("tier", "quick")
    d = 3 if (not large and rng.random() < (0.15 if tier == "quick" else 0.3)) else 2
    if large:
        lmin, lmax = rng.choice([(3, 5), (2, 5)])
        steps = rng.randint(2, 3)
        maxp = 700
    else:
        lmin, lmax = rng.choice([(1, 2), (1, 3), (2, 3), (1, 4)]) if d == 2 else rng.choice([(1, 2), (2, 3)])
        steps = rng.randint(3, 10 if d == 2 else 5)
        maxp = 150
    X, labels, style = gen_data(rng, d, demodel.uniform_stripes([lmax] * d))
    if len(X) < 8:
        X = np.vstack([X, np.random.RandomState(case["seed"] % 2 ** 31).rand(30, d)])
        labels = None if labels is None else np.concatenate([labels, np.random.RandomState(1 + case["seed"] % 2 ** 31).choice([-1.0, 1.0], 30)])
    cfg = {"d": d, "lmin": lmin, "lmax": lmax, "steps": steps, "lambda": rng.choice([0.0, 1e-3, 0.1]), "margin": rng.choice([0.5, 0.9]),
           "rebalancing": rng.random() < 0.5, "version": rng.choice([6, 6, 2, 3]), "errseed": rng.randrange(2 ** 31), "labels": labels is not None,
           "M": len(X), "data": style, "max_grid_points": maxp, "large": large}
    cfg["masslumping"] = rng.random() < 0.3       # the mass-lumped solve of the twins as well
    if cfg["masslumping"]:
        res.count("masslumped_twins")
    res.sample = {"config": cfg}
    P = [tuple(rng.random() for _ in range(d)) for _ in range(200)]
    c0, op0, o0 = run_de(cfg, X, labels, False, P)
    c1, op1, o1 = run_de(cfg, X, labels, True, P)
    n = min(len(o0.evals_log), len(o1.evals_log))
    res.check("twin_scheme", len(o0.evals_log) == len(o1.evals_log), "C17_twin_history_length",
              "reuse on/off twins performed %d vs %d evaluations" % (len(o1.evals_log), len(o0.evals_log)), cfg)
    maxN = 0
    for i in range(n):
        e0, e1 = o0.evals_log[i], o1.evals_log[i]
        where = "evaluation #%d" % (i + 1)
        res.check("twin_scheme", e0["scheme"] == e1["scheme"], "C17_twin_scheme_differs", "%s: schemes of the twins differ" % where, cfg)
        res.check("twin_surplus_keys", sorted(e0["surpluses"]) == sorted(e1["surpluses"]), "C17_twin_surplus_keys", "%s: surplus keys differ" % where, cfg)
        for k in e0["surpluses"]:
            if k in e1["surpluses"] and len(e0["surpluses"][k]) == len(e1["surpluses"][k]):
                s0, s1 = e0["surpluses"][k], e1["surpluses"][k]
                maxN = max(maxN, len(s0))
                big = ":grid_ge_200" if len(s0) >= 200 else ""
                res.close("twin_surpluses", s1, s0, 1e-9 * max(1.0, float(np.max(np.abs(s0)))), "C17_twin_surpluses_differ" + big,
                          "%s: surpluses of grid %s with reuse on differ from reuse off" % (where, k), dict(cfg, grid=k, n=len(s0)))
            else:
                res.check("twin_surpluses", False, "C17_twin_surplus_length", "%s: surplus vector of grid %s has different length" % (where, k), cfg)
        sc = max(1.0, float(np.max(np.abs(e0["interp"])))) * sum(abs(cf) for _, cf in e0["scheme"])
        for tag, e in (("off", e0), ("on", e1)):
            if e.get("reference") is not None:
                res.close("interpolation_vs_reference", e["interp"], e["reference"], 1e-9 * sc,
                          "C17_interpolation_differs_from_hat_expansion" + (":grid_ge_200" if max(e["sizes"]) >= 200 else ""),
                          "%s (reuse %s): combi(x) differs from the hat expansion of the stored surpluses on the current grids" % (where, tag), cfg)
        res.close("twin_interpolation", e1["interp"], e0["interp"], 1e-9 * sc, "C17_twin_interpolation_differs" + (":grid_ge_200" if max(e0["sizes"]) >= 200 else ""),
                  "%s: combi(x) with reuse on differs from reuse off" % where, cfg)
    # audit of the matrix-entry cache
    audit_R_cache(res, op1, cfg)
    res.count("twin_evaluations", n)
    if maxN >= 200:
        res.count("twin_grids_ge_200")
    res.hash = digest([cfg, X.tobytes().hex()[:64]])
    res.nontrivial = n >= 3
    res.states.add(digest([o0.evals_log[-1]["scheme"], o0.evals_log[-1]["sizes"]]) if o0.evals_log else "none")
    res.sample = {"config": cfg, "evaluations": n, "largest_grid": maxN, "final_scheme": o0.evals_log[-1]["scheme"][:8] if o0.evals_log else None}


def audit_R_cache(res, op, cfg):
    """every cached matrix entry must equal the value the key's (width, distance) multiset determines"""
    import ast
    n = 0
    for key, val in list(op.old_R.items())[:4000]:
        try:
            import re
            widths, dists = ast.literal_eval(key.replace("np.float64(", "(").replace("np.int64(", "("))
        except Exception:
            continue
        nz = sorted(x for x in dists if x != 0)
        w = sorted(widths)
        exp = 1.0
        ok = True
        rest = list(w)
        for h in nz:  # neighbouring hats in this dimension: overlap width == distance, entry h/6
            cand = [x for x in rest if abs(x - h) <= 1e-12 * max(1.0, h)]
            if not cand:
                ok = False
                break
            rest.remove(cand[0])
            exp *= h / 6.0
        for x in rest:   # same point in this dimension: entry (support width)/3
            exp *= x / 3.0
        if all(x == 0 for x in widths):
            exp = 0.0
        n += 1
        if ok:
            res.close("R_cache_audit", val, exp, 1e-12 * max(abs(exp), 1e-300) + 1e-300, "C17_R_cache_entry_wrong",
                      "cached matrix entry for key %s is %r, the key determines %r" % (key[:80], val, exp), cfg)
        else:
            res.check("R_cache_audit", False, "C17_R_cache_key_inconsistent", "cache key %s is not a consistent (width, distance) multiset" % key[:80], cfg)
    return n


def run_handover(case, res):
    import sparseSpACE.Grid as G
    from sparseSpACE.ComponentGridInfo import ComponentGridInfo
    rng = random.Random(case["seed"])
    d = rng.choice([1, 2, 2])
    # nested sequence of trees per dimension
    seqs = []
    sizes0 = {1: [150, 210, 230], 2: [14, 17, 19]}[d]
    for k in range(d):
        P, L = trees.gen_tree(rng, 0.0, 1.0, n_points=sizes0[0] + rng.randint(0, 3), max_depth=16)
        seq = [(list(map(float, P)), list(L))]
        for target in sizes0[1:]:
            P2, L2 = list(seq[-1][0]), list(seq[-1][1])
            guard = 0
            while len(P2) < target + rng.randint(0, 2) and guard < 1000:
                guard += 1
                i = rng.randrange(len(P2) - 1)
                Lnew = max(L2[i], L2[i + 1]) + 1
                if Lnew > 16:
                    continue
                m = 0.5 * (P2[i] + P2[i + 1])
                P2.insert(i + 1, m)
                L2.insert(i + 1, Lnew)
            seq.append((P2, L2))
        seqs.append(seq)
    nst = rng.choice([2, 3])
    grids = [([seqs[k][j][0] for k in range(d)], [seqs[k][j][1] for k in range(d)]) for j in range(nst)]
    X, labels, style = gen_data(rng, d, grids[0][0])
    if len(X) < 20:
        X = np.vstack([X, np.random.RandomState(case["seed"] % 2 ** 31).rand(60, d)])
        labels = None if labels is None else np.concatenate([labels, np.random.RandomState(1 + case["seed"] % 2 ** 31).choice([-1.0, 1.0], 60)])
    lam = rng.choice([0.0, 1e-3, 0.1])
    ml_handover = rng.random() < 0.3
    cfg = {"d": d, "sizes": [[len(x) for x in g[0]] for g in grids], "M": len(X), "data": style, "lambda": lam, "labels": labels is not None,
           "masslumping": ml_handover}
    res.sample = {"config": cfg}
    a, b = np.zeros(d), np.ones(d)
    ops = []
    for reuse in (False, True):
        grid = G.GlobalTrapezoidalGrid(a=a, b=b, boundary=False)
        gs = G.GlobalTrapezoidalGrid(a=a, b=b, boundary=False)
        op = make_op(X, labels, d, grid=grid, masslumping=ml_handover, lambd=lam, reuse_old_values=reuse)
        cont = Dummy()
        op.init_dimension_wise(grid, gs, cont, [1] * d, [16] * d, a, b, 6)
        ops.append((op, cont))
    s = np.ones(len(X)) if labels is None else labels
    big = False
    for j, (xs, levs) in enumerate(grids):
        N = int(np.prod([len(x) - 2 for x in xs]))
        big = big or N >= 200
        lvv = [max(l) for l in levs]
        cg = ComponentGridInfo(lvv, 1)
        outs = []
        for op, cont in ops:
            with contextlib.redirect_stdout(io.StringIO()):
                op.initialize_evaluation_dimension_wise(cont)
                bvec = np.asarray(op.calculate_B_dimension_wise(op.data, xs, levs), dtype=float)
                op.calculate_operation_dimension_wise(xs, levs, cg)
                op.post_processing()
            outs.append((bvec, np.array(op.surpluses[tuple(lvv)], dtype=float)))
        A = demodel.hat_matrix(xs, X)
        bref = (A * s[:, None]).sum(axis=0) / len(X)
        where = "grid %d of %d (N=%d)" % (j + 1, len(grids), N)
        tag = ":grid_ge_200" if N >= 200 else ""
        res.close("handover_b_vs_reference", outs[1][0], bref, 1e-13, "C17_handover_b_reuse_differs_from_reference" + tag + (":after_handover" if j > 0 else ""),
                  "%s: right-hand side with reuse on differs from the mean of the hat functions" % where, dict(cfg, step=j))
        res.close("handover_b_off_vs_reference", outs[0][0], bref, 1e-13, "C17_handover_b_noreuse_differs_from_reference" + tag,
                  "%s: right-hand side with reuse off differs from the mean of the hat functions" % where, dict(cfg, step=j))
        res.close("handover_surpluses_vs_twin", outs[1][1], outs[0][1], 1e-9 * max(1.0, float(np.max(np.abs(outs[0][1])))),
                  "C17_handover_surpluses_differ" + tag, "%s: surpluses with reuse on differ from reuse off" % where, dict(cfg, step=j))
        if j > 0 and N >= 200:
            res.count("handover_reused_entries")
    audit_R_cache(res, ops[1][0], cfg)
    res.hash = digest([cfg, X.tobytes().hex()[:64]])
    res.nontrivial = big
    res.states.add(digest(cfg["sizes"]))


def run_interp(case, res):
    """interpolation just below / above the 200-point threshold against the reference interpolant"""
    import sparseSpACE.Grid as G
    from sparseSpACE.ComponentGridInfo import ComponentGridInfo
    from sparseSpACE.StandardCombi import StandardCombi
    rng = random.Random(case["seed"])
    d = rng.choice([1, 2, 2, 3, 4])
    path = rng.choice(["uniform", "dimwise"])
    cfg = {"d": d, "path": path}
    res.sample = {"config": cfg}
    P = [tuple(rng.choice([rng.random(), rng.random(), 0.5, 0.25]) for _ in range(d)) for _ in range(60)]
    if path == "uniform":
        lv = rng.choice({1: [[7], [8], [6]], 2: [[4, 4], [5, 3], [3, 5], [4, 3], [5, 4]],
                         3: [[2, 2, 3], [3, 2, 2], [3, 3, 2], [3, 3, 3], [2, 4, 2], [1, 2, 3]],
                         4: [[2, 2, 2, 2], [1, 2, 3, 2], [3, 2, 2, 2], [2, 1, 2, 3]]}[d])
        X, labels, style = gen_data(rng, d, demodel.uniform_stripes(lv))
        op = make_op(X, labels, d, masslumping=False, lambd=0.01)
        combi = StandardCombi(np.zeros(d), np.ones(d), operation=op, print_output=False, log_level=100, print_level=100)
        op.grid.numPoints = 2 ** np.asarray(lv, dtype=int) - 1
        # right-hand side: vectorised small-grid path (< 200 points) vs hats-in-support large-grid path, same reference
        bgot = np.asarray(op.calculate_B(op.data, lv), dtype=float)
        sgn = np.ones(len(X)) if labels is None else labels
        bref = (demodel.hat_matrix(demodel.uniform_stripes(lv), X) * sgn[:, None]).sum(axis=0) / len(X)
        nb = len(bref)
        res.close("rhs_size_paths", bgot, bref, 1e-13, "C17_rhs_differs_from_reference:uniform:%s" % ("ge_200" if nb >= 200 else "lt_200"),
                  "calculate_B (uniform path, %d points, data style %s) differs from the mean of the hat functions" % (nb, style), dict(cfg, levels=lv))
        al = np.asarray(op.solve_density_estimation(lv), dtype=float)
        op.surpluses[tuple(lv)] = al
        cg = ComponentGridInfo(lv, 1)
        with contextlib.redirect_stdout(io.StringIO()):
            got = np.asarray(op.interpolate_points_component_grid(cg, None, P), dtype=float).reshape(len(P))
        xs = demodel.uniform_stripes(lv)
        N = len(al)
    else:
        ns = rng.choice({1: [[150], [190], [201], [203], [230]], 2: [[15, 15], [16, 16], [17, 17], [12, 22], [14, 19]],
                         3: [[5, 6, 7], [8, 8, 7], [9, 8, 7], [4, 9, 5], [7, 7, 8]], 4: [[4, 5, 4, 5], [5, 5, 6, 5], [6, 5, 6, 6], [3, 4, 5, 6]]}[d])
        xs, levs = [], []
        for k in range(d):
            Pk, L = trees.gen_tree(rng, 0.0, 1.0, n_points=ns[k], max_depth=16)
            xs.append(list(map(float, Pk)))
            levs.append(L)
        X, labels, style = gen_data(rng, d, xs)
        a, b = np.zeros(d), np.ones(d)
        grid = G.GlobalTrapezoidalGrid(a=a, b=b, boundary=False)
        gs = G.GlobalTrapezoidalGrid(a=a, b=b, boundary=False)
        op = make_op(X, labels, d, grid=grid, masslumping=False, lambd=0.01)
        cont = Dummy()
        op.init_dimension_wise(grid, gs, cont, [1] * d, [16] * d, a, b, 6)
        lvv = [max(l) for l in levs]
        cg = ComponentGridInfo(lvv, 1)
        with contextlib.redirect_stdout(io.StringIO()):
            op.initialize_evaluation_dimension_wise(cont)
            op.calculate_operation_dimension_wise(xs, levs, cg)
            al = np.asarray(op.surpluses[tuple(lvv)], dtype=float)
            got = np.asarray(op.interpolate_points_component_grid(cg, xs, P), dtype=float).reshape(len(P))
        N = len(al)
    exp = demodel.interpolate(xs, al, P)
    cfg.update({"N": N, "M": len(X)})
    res.close("interpolation_size_paths", got, exp, 1e-11 * max(1.0, float(np.max(np.abs(exp)))),
              "C17_interpolation_differs_from_reference:%s:%s" % (path, "ge_200" if N >= 200 else "lt_200"),
              "interpolate_points_component_grid (%s path, %d points) differs from the hat interpolant of the surpluses" % (path, N), cfg)
    res.count("interp_ge_200" if N >= 200 else "interp_lt_200")
    res.hash = digest([cfg, X.tobytes().hex()[:64]])
    res.nontrivial = False
    res.states.add(digest([path, N >= 200]))


def crash_sig(case, ex, where, tb):
    return "C17_crash:%s:%s@%s" % (case["gen"], type(ex).__name__, where)


def run_case(case, res):
    g = case["gen"]
    if g == "twin":
        run_twin(case, res, False)
    elif g == "twin_large":
        run_twin(case, res, True)
    elif g == "handover":
        run_handover(case, res)
    else:
        run_interp(case, res)

RULE += (" " + 'Mass-lumped twins and hand-over sequences; interpolation size paths in 3 and 4 dimensions; d = 3 twins in the quick tier.')
