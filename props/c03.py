"""C03 — dimension-wise refinement always yields a valid nested combination."""
import random

from vlib import dimwise, hooks
from vlib import refmodels as rm
from vlib.common import case_seed, digest

RULE = ("seeded hostile histories of the real dimension-wise strategy (d=1..4, 7 start level pairs, versions 2/3/6/7/8, "
        "rebalancing on/off x 3 safety factors, boundary on/off, 5 margins, 8 box kinds, 9 error-estimate profiles incl. "
        "zeros/ties/single winners/hot spots); oracle evaluated after every refine() and every evaluation. distinct = "
        "hash of final per-dimension (coordinate, level) sequences; non-trivial = at least one lmax raise or rebalancing "
        "rotation or a tree deeper than the start level")
RULE += (" At the end of every history interpolate_grid is evaluated on the 1-D point lists of a component grid and compared with the function.")
RULE += (" A fifth of the histories are continued by a second performSpatiallyAdaptiv(start levels, refinement_container=current refinement) for 1..3 further steps.")
REQUIRED = ["sorted_with_endpoints", "depends_only_on_level", "nested_in_level", "component_points_are_tensor_product",
            "coefficient_sum_per_point", "nodal_reproduction", "nodal_reproduction_grid", "scheme_contract"]
MIN_NONTRIVIAL = {"quick": 100, "thorough": 1000}
CHUNK = {"quick": 12, "thorough": 60}
ASSUMPTIONS = ["tree depth capped at 30 levels (float resolution of midpoint splitting)",
               "d<=4, <=14 (quick) / <=40 (thorough) refinement steps per history"]


def cases(tier, seed):
    n = 1000 if tier == "quick" else 20000
    return [{"gen": "history", "seed": case_seed(seed, "C03", "history", i), "tier": tier} for i in range(n)]


class Obs(hooks.Observer):
    def __init__(self, res, f, cfg, err):
        super().__init__(cfg["steps"], err)
        self.res, self.f, self.cfg = res, f, cfg
        self.trace = []
        self.points = {}
        # quiet histories: the monitors only look at the final state, so that their own read-outs (point lists, interpolation calls)
        # cannot refresh state the library keeps between refinement steps
        self.quiet = False

    def scheme_contract(self, c, where):
        cs = c.combischeme
        if not cs.initialized_adaptive:
            return
        lmin = self.cfg["lmin"]
        probs = rm.index_set_problems(set(cs.old_index_set), set(cs.active_index_set), lmin, c.dim)
        scheme = [(tuple(int(x) for x in g.levelvector), g.coefficient) for g in c.scheme]
        probs += rm.coefficient_problems(set(cs.get_index_set()), scheme, lmin, c.dim)
        self.res.check("scheme_contract", not probs, "dimwise_scheme_contract:" + (probs[0][0] if probs else ""),
                       "%s: combination scheme of the adaptive run violates the inclusion-exclusion contract: %s" % (where, probs[:3]),
                       {"old": sorted(cs.old_index_set), "active": sorted(cs.active_index_set), "scheme": scheme})

    def after_refine(self, c):
        super().after_refine(c)
        if self.quiet:
            return
        where = "after refine #%d" % self.steps
        self.points = dimwise.check_nested_combination(self.res, c, where)
        self.scheme_contract(c, where)
        self.trace.append({"step": self.steps, "lmax": list(c.lmax), "grids": len(c.scheme), "union_points": len(self.points),
                           "intervals": [c.refinement.get_refinement_container_for_dim(k).size() for k in range(c.dim)]})

    def final_state(self, c):
        where = "final state (after %d refinements)" % self.steps
        self.points = dimwise.check_nested_combination(self.res, c, where)
        self.scheme_contract(c, where)
        pts = list(self.points)
        if len(pts) > 1500:
            pts = random.Random(self.steps).sample(pts, 1500)
        dimwise.check_interpolation(self.res, c, pts, self.f, where)
        self.res.count("final_state_checks")

    def after_evaluate(self, c, r):
        super().after_evaluate(c, r)
        if self.quiet:
            return
        where = "after evaluation #%d" % self.evals
        if self.evals == 1:
            self.points = dimwise.check_nested_combination(self.res, c, where)
            self.scheme_contract(c, where)
        pts = list(self.points)
        if len(pts) > 1500:
            rr = random.Random(self.evals)
            pts = rr.sample(pts, 1500)
        dimwise.check_interpolation(self.res, c, pts, self.f, where)


def grid_interpolation(res, rng, c, f):
    """The tensor-grid entry point of the combined interpolant: on the 1-D point lists of one component grid (all of whose
    tensor points belong to the combined grid) interpolate_grid must return the function values, like __call__ does."""
    import itertools
    import numpy as np
    if not getattr(c, "scheme", None):
        return
    boundary = c.grid.boundary
    cand = []
    for g in c.scheme:
        coords, _, _ = c.get_point_coord_for_each_dim(list(g.levelvector))
        axes = [[float(x) for x in (cs if boundary else cs[1:-1])] for cs in coords]
        n = 1
        for ax in axes:
            n *= len(ax)
        if 0 < n <= 3000:
            cand.append(axes)
    if not cand:
        res.note("no_component_grid_small_enough_for_interpolate_grid")
        return
    axes = rng.choice(cand)
    vals = np.asarray(c.interpolate_grid(axes))
    pts = list(itertools.product(*axes))
    exp = np.array([f.eval(p) for p in pts])
    nsch = sum(abs(g.coefficient) for g in c.scheme)
    scale = max(getattr(f, "magnitude", 1.0), float(np.max(np.abs(exp)))) * nsch
    res.close("nodal_reproduction_grid", vals, exp, 1e-11 * scale, "dimwise_interpolate_grid_not_nodal",
              "interpolate_grid on the 1-D point lists of a component grid differs from the function at these points of the combined grid",
              {"axes": [ax[:20] for ax in axes]})


def run_case(case, res):
    rng = random.Random(case["seed"])
    cfg = dimwise.gen_config(rng, case.get("tier", "quick"))
    d = cfg["d"]
    if rng.random() < 0.12:
        # an integer-valued function (labels / counts): eval() returns an integer-typed array
        f = hooks.VFunction([hooks.comp_int_hash(case["seed"]), hooks.comp_int_hash(case["seed"] + 1)], integer_valued=True)
        res.count("integer_valued_function")
    elif rng.random() < 0.1:
        # the same kind of function at a magnitude of 1e-9 / 1e-12 (interpolation is linear; nothing may be rounded to zero)
        fs = rng.choice([1e-9, 1e-12])
        f = hooks.VFunction([(lambda q, g=hooks.comp_hash(case["seed"]): fs * g(q)), (lambda q, g=hooks.comp_smooth(case["seed"], d): fs * g(q))])
        f.magnitude = fs
        res.count("function_magnitude_tiny")
    else:
        f = hooks.VFunction([hooks.comp_hash(case["seed"]), hooks.comp_smooth(case["seed"], d)])
    err = hooks.RandErr(cfg["errseed"], cfg["profile"], d, cfg["a"], cfg["b"], scale=cfg.get("errscale", 1.0))
    obs = Obs(res, f, cfg, err)
    obs.quiet = rng.random() < 0.3
    cfg["quiet_until_final_state"] = obs.quiet
    c = dimwise.build(cfg, f, obs)
    dimwise.maybe_prior_run(rng, c, cfg, err, res)
    dimwise.run(c, cfg, err)
    dimwise.maybe_restart(rng, c, cfg, err, obs, res)
    if obs.quiet:
        res.count("quiet_histories")
        obs.final_state(c)
    grid_interpolation(res, rng, c, f)
    deepest = obs.deepest(c)
    res.hash = dimwise.structure_digest(c)
    res.nontrivial = obs.lmax_raises > 0 or obs.rotations > 0 or deepest > cfg["lmax"]
    res.count("lmax_raises", obs.lmax_raises)
    res.count("rotations", obs.rotations)
    res.count("refine_steps", obs.steps)
    res.states.add(res.hash)
    res.sample = {"config": cfg, "steps_done": obs.steps, "rotations": obs.rotations, "lmax_raises": obs.lmax_raises,
                  "deepest_level": deepest, "final_lmax": list(c.lmax), "trace": obs.trace[:8]}

RULE += (" " + 'A third of the histories is quiet (judged on the final state only, no monitor query in between); domains are also handed over as lists / tuples / python ints / integer arrays (integer boxes) and with edge lengths differing by up to 15 orders of magnitude; integer-valued functions; error values at magnitudes 1e-12..1e9; a leading-dimension profile; evaluation lists with repeated points.')
