"""C14 — interrupted, saved or resumed refinement ends where an uninterrupted run ends."""
import contextlib
import io
import os
import random

import numpy as np

from vlib import dimwise, extsplit, hooks
from vlib.common import case_seed, digest

RULE = ("for dimension-wise and extend-split configurations (library integrands; refinement by the real estimator or by a "
        "stateless geometry-hash estimator) an uninterrupted run U with limits (tol=-1, M) is recorded; for EVERY evaluation index k "
        "of U a twin is stopped at k (max_evaluations = points_U[k]-1) and then (a) continued with continue_adaptive_refinement("
        "max_evaluations=M), (b) saved with save_to_file, restored with restore_from_file and continued. Final refinement "
        "structure, scheme, lmax, result and point count are compared with U; directly after restore the restored object's result "
        "and interpolation are compared with the saved object's. distinct = digest(strategy, configuration, k); non-trivial = "
        "interruption point with 0 < k < last evaluation of U")
RULE += (" Dimension-wise cases additionally stop by a loose TOLERANCE (error against the analytic reference) and continue with a tighter one; the end state is compared with the single run using the tight tolerance.")
RULE += (" Chains: stop at k1, continue to k2 (optionally via a checkpoint file, optionally a second checkpoint), continue to the end; the intermediate state is compared with a run stopped directly at k2, the end with U including the combined interpolant at 64 points.")
RULE += (" Half of the checkpoints are written to a path that already holds an older checkpoint of the same run.")
REQUIRED = ["chain_intermediate_state", "chain_final_state", "chain_final_result", "chain_final_interpolation", "continue_tighter_tolerance", "continue_structure", "continue_scheme", "continue_result", "continue_points", "restore_identical_result",
            "restore_identical_interpolation", "restored_continue_structure", "restored_continue_result"]
MIN_NONTRIVIAL = {"quick": 60, "thorough": 700}
CHUNK = {"quick": 3, "thorough": 12}
ASSUMPTIONS = ["estimators are deterministic functions of the refinement state (the re-entrant loop re-evaluates once)",
               "the history arrays may contain the one extra re-evaluation; they are not compared"]


def cases(tier, seed):
    n = 52 if tier == "quick" else 600
    out = [{"gen": "dimwise", "seed": case_seed(seed, "C14", "dimwise", i), "tier": tier} for i in range(n)]
    out += [{"gen": "extsplit", "seed": case_seed(seed, "C14", "extsplit", i), "tier": tier} for i in range(n)]
    return out


def make_function(rng, d):
    import sparseSpACE.Function as F
    kind = rng.choice(["corner", "product", "c0", "gauss", "discont", "osc", "vector", "vector"])
    c = [rng.uniform(0.5, 3) for _ in range(d)]
    m = [rng.uniform(0.2, 0.8) for _ in range(d)]
    if kind == "vector":
        # vector-valued integrand (two or three library functions side by side): error estimates go through the chosen norm
        c2 = [rng.uniform(0.5, 3) for _ in range(d)]
        m2 = [rng.uniform(0.2, 0.8) for _ in range(d)]
        three = rng.random() < 0.4
        return kind, (lambda: F.FunctionConcatenate([F.GenzGaussian(midpoint=m, coefficients=c), F.GenzC0(coeffs=c2, midpoint=m2)]
                                                    + ([F.GenzCornerPeak(coeffs=c2)] if three else [])))
    if kind == "corner":
        return kind, (lambda: F.GenzCornerPeak(coeffs=c))
    if kind == "product":
        return kind, (lambda: F.GenzProductPeak(coefficients=c, midpoint=m))
    if kind == "c0":
        return kind, (lambda: F.GenzC0(coeffs=c, midpoint=m))
    if kind == "gauss":
        return kind, (lambda: F.GenzGaussian(midpoint=m, coefficients=c))
    if kind == "discont":
        return kind, (lambda: F.GenzDiscontinious(coeffs=c, border=m))
    return kind, (lambda: F.GenzOszillatory(coeffs=c, offset=0.3))


class DepthGuard(hooks.Observer):
    """Only the uninterrupted run carries it: a history that refines one spot 40 times runs into floating-point resolution
    (the library's own start < mid < end assertion) - that is exhaustion of the workload, not an interruption property, and
    such a case is skipped.  The interrupted / continued twins repeat prefixes of the same deterministic history."""

    def __init__(self):
        super().__init__(10 ** 9, None, max_depth=40, max_points=None)

    def deepest(self, c):
        try:
            if hasattr(c.refinement, "get_refinement_container_for_dim"):
                return super().deepest(c)
            import math
            best = 0
            for o in c.refinement.get_objects():
                for k in range(c.dim):
                    g = (float(c.b[k]) - float(c.a[k])) / (float(o.end[k]) - float(o.start[k]))
                    best = max(best, int(math.log2(g)))
            return best
        except Exception:
            return 0


def build(strategy, cfg, f, guard=None):
    obs = None
    if strategy == "dimwise":
        c = dimwise.build(cfg, f, guard)
        err = (hooks.RandErr(cfg["errseed"], "geomhash", cfg["d"], cfg["a"], cfg["b"]) if cfg["profile"] == "geomhash"
               else hooks.RandErr(cfg["errseed"], "real", cfg["d"], cfg["a"], cfg["b"]))
    else:
        c = extsplit.build(cfg, f, guard)
        from sparseSpACE.ErrorCalculator import ErrorCalculatorExtendSplit
        err = (hooks.RandErr(cfg["errseed"], "geomhash", cfg["d"], cfg["a"], cfg["b"]) if cfg["profile"] == "geomhash"
               else ErrorCalculatorExtendSplit())
    return c, err


def state(strategy, c):
    if strategy == "dimwise":
        st = [[(float(o.start), float(o.end), tuple(o.levels), int(o.coarsening_level))
               for o in c.refinement.get_refinement_container_for_dim(k).get_objects()] for k in range(c.dim)]
    else:
        st = sorted((tuple(float(x) for x in o.start), tuple(float(x) for x in o.end), int(o.coarseningValue)) for o in extsplit.leaves(c))
    scheme = sorted((tuple(int(x) for x in g.levelvector), float(g.coefficient)) for g in c.scheme)
    return st, scheme, [int(x) for x in c.lmax]


def quiet(fn, *a, **k):
    with contextlib.redirect_stdout(io.StringIO()):
        return fn(*a, **k)


def tolerance_continuation(case, res, rng, cfg, fname, fac, M):
    """'larger limits' also means a tighter tolerance: a run stopped by a loose tolerance and continued with a tight one must end
    where a single run with the tight tolerance ends (dimension-wise strategy, error measured against the analytic reference)."""
    f0 = fac()
    ref = f0.getAnalyticSolutionIntegral(np.array(cfg["a"], dtype=float), np.array(cfg["b"], dtype=float))
    if ref is None:
        return      # no analytic reference for this integrand (concatenated functions)
    cfg_t = dict(cfg, reference=ref)
    args = dict(lmin=cfg["lmin"], lmax=cfg["lmax"], do_plot=False, print_output=False)
    c0, e0 = build("dimwise", cfg_t, fac())
    r0 = quiet(c0.performSpatiallyAdaptiv, errorOperator=e0, tol=-1.0, max_evaluations=M, **args)
    errs = [float(x) for x in r0[5]]
    minima = [i for i in range(len(errs)) if errs[i] > 0 and all(errs[i] < x for x in errs[:i])]
    if len(minima) < 2:
        res.note("no_two_running_minima_for_tolerance_variant")
        return
    j = rng.choice(minima[1:])
    k = rng.choice([i for i in minima if i < j])

    def tol_for(i):
        prev = min(errs[:i]) if i > 0 else errs[i] * 4
        return 0.5 * (errs[i] + prev)
    tol1, tol2 = tol_for(k), tol_for(j)
    ctx = {"cfg": cfg, "function": fname, "M": M, "errors": errs[:12], "k": k, "j": j, "tol_first": tol1, "tol_final": tol2}
    cu, eu = build("dimwise", cfg_t, fac())
    ru = quiet(cu.performSpatiallyAdaptiv, errorOperator=eu, tol=tol2, max_evaluations=M, **args)
    res.check("interruption_point", len(ru[6]) - 1 == j, "C14_harness_tolerance_stop",
              "harness: run with the final tolerance stopped at evaluation %d instead of %d" % (len(ru[6]) - 1, j), ctx)
    ca, ea = build("dimwise", cfg_t, fac())
    ra = quiet(ca.performSpatiallyAdaptiv, errorOperator=ea, tol=tol1, max_evaluations=M, **args)
    res.check("interruption_point", len(ra[6]) - 1 == k, "C14_harness_tolerance_stop",
              "harness: run with the first tolerance stopped at evaluation %d instead of %d" % (len(ra[6]) - 1, k), ctx)
    rc = quiet(ca.continue_adaptive_refinement, tol=tol2, max_evaluations=M)
    su, sc = state("dimwise", cu), state("dimwise", ca)
    res.check("continue_tighter_tolerance", sc == su and ca.get_total_num_points() == cu.get_total_num_points(),
              "C14_continue_with_tighter_tolerance_differs:dimwise",
              "stopped by tol=%.3g at evaluation %d and continued with tol=%.3g: %d points, the single run with the final tolerance "
              "ends with %d points (structure/scheme equal: %s)" % (tol1, k, tol2, ca.get_total_num_points(), cu.get_total_num_points(), sc == su), ctx)
    scale = max(1e-300, float(np.max(np.abs(np.array(ru[3], dtype=float)))))
    res.close("continue_tighter_tolerance", np.array(rc[3], dtype=float), np.array(ru[3], dtype=float), 1e-11 * scale,
              "C14_continue_with_tighter_tolerance_result:dimwise", "result after the tolerance continuation differs from the single run", ctx)


def chain_continuation(res, rng, strategy, cfg, fname, fac, M, args, pts_u, su, result_u, npts_u, cu, P):
    """Several interruptions in a row: stop at k1, continue to k2 (optionally through a checkpoint file), continue to the end.
    The intermediate stop must be the state a direct run stopped at k2 has; the end must be the uninterrupted run's end,
    including the combined interpolant."""
    from sparseSpACE.StandardCombi import StandardCombi
    ks = [k for k in range(len(pts_u) - 1) if k == 0 or pts_u[k] != pts_u[k - 1]]
    if len(ks) < 2:
        res.note("too_few_evaluations_for_chain")
        return
    k1, k2 = sorted(rng.sample(ks, 2))
    ctx = {"cfg": cfg, "function": fname, "M": M, "k1": k1, "k2": k2, "points_U": pts_u}
    cb, eb = build(strategy, cfg, fac())
    rb = quiet(cb.performSpatiallyAdaptiv, errorOperator=eb, max_evaluations=pts_u[k2] - 1, **args)
    if len(rb[6]) - 1 != k2:
        res.note("chain_direct_run_stopped_elsewhere")
        return
    ca, ea = build(strategy, cfg, fac())
    quiet(ca.performSpatiallyAdaptiv, errorOperator=ea, max_evaluations=pts_u[k1] - 1, **args)
    obj = ca
    via_file = rng.random() < 0.5
    if via_file:
        path = os.path.join(os.getcwd(), "c14_chain_%d.dill" % rng.randrange(10 ** 6))
        quiet(ca.save_to_file, path)
        obj = StandardCombi.restore_from_file(path)
        os.remove(path)
    r2 = quiet(obj.continue_adaptive_refinement, tol=-1.0, max_evaluations=pts_u[k2] - 1)
    suffix = ":" + strategy + (":via_file" if via_file else "")
    sb, s2 = state(strategy, cb), state(strategy, obj)
    scale_b = max(1e-300, float(np.max(np.abs(np.array(rb[3], dtype=float)))))
    res.check("chain_intermediate_state", s2 == sb and obj.get_total_num_points() == cb.get_total_num_points(),
              "C14_chain_intermediate_state_differs" + suffix,
              "stopped at evaluation %d and continued with the limits of evaluation %d: structure/scheme/points differ from the run "
              "stopped directly at evaluation %d (%d vs %d points)" % (k1, k2, k2, obj.get_total_num_points(), cb.get_total_num_points()), ctx)
    # extend-split: the result after continue_adaptive_refinement is the known finding F6 (same call site, same mechanism)
    known_sig = ("C14_restored_continue_result_differs:extsplit" if via_file else "C14_continue_result_differs:extsplit")
    res.close("chain_intermediate_result", np.array(r2[3], dtype=float), np.array(rb[3], dtype=float), 1e-11 * scale_b,
              known_sig if strategy == "extsplit" else "C14_chain_intermediate_result_differs" + suffix, "result at the intermediate stop differs from the direct run", ctx)
    if via_file and rng.random() < 0.5:
        path = os.path.join(os.getcwd(), "c14_chain2_%d.dill" % rng.randrange(10 ** 6))
        quiet(obj.save_to_file, path)
        obj = StandardCombi.restore_from_file(path)
        os.remove(path)
        res.count("chain_second_checkpoint")
    r3 = quiet(obj.continue_adaptive_refinement, tol=-1.0, max_evaluations=M)
    s3 = state(strategy, obj)
    scale = max(1e-300, float(np.max(np.abs(result_u))))
    res.check("chain_final_state", s3 == su and obj.get_total_num_points() == npts_u, "C14_chain_final_state_differs" + suffix,
              "two interruptions (%d, %d): final structure/scheme/points differ from the uninterrupted run (%d vs %d points)"
              % (k1, k2, obj.get_total_num_points(), npts_u), ctx)
    res.close("chain_final_result", np.array(r3[3], dtype=float), result_u, 1e-11 * scale,
              known_sig if strategy == "extsplit" else "C14_chain_final_result_differs" + suffix,
              "two interruptions: final result differs from the uninterrupted run", ctx)
    # the combined interpolant of the continued object equals that of the uninterrupted one (evaluated last: __call__ fills caches)
    vu, vc = np.asarray(quiet(cu, P), dtype=float), np.asarray(quiet(obj, P), dtype=float)
    sc = max(1e-300, float(np.max(np.abs(vu))))
    res.close("chain_final_interpolation", vc, vu, 1e-10 * sc, "C14_chain_final_interpolation_differs" + suffix,
              "interpolant of the twice-continued object differs from the uninterrupted run's", ctx)


def run_case(case, res):
    from sparseSpACE.StandardCombi import StandardCombi
    rng = random.Random(case["seed"])
    strategy = case["gen"]
    tier = case.get("tier", "quick")
    if strategy == "dimwise":
        cfg = dimwise.gen_config(rng, tier, dims=(1, 2, 2, 3), box_kinds=["unit"])
        cfg["a"], cfg["b"] = [0.0] * cfg["d"], [1.0] * cfg["d"]
        if cfg["d"] == 3:
            cfg["lmin"], cfg["lmax"] = rng.choice([(1, 2), (2, 3)])
        M = rng.choice([60, 120, 200]) if cfg["d"] < 3 else rng.choice([150, 300])
    else:
        cfg = extsplit.gen_config(rng, tier, versions=(0, 0, 1, 2), dims=(2, 2, 3), boundary_choices=(True,))
        cfg["a"], cfg["b"] = [0.0] * cfg["d"], [1.0] * cfg["d"]
        M = rng.choice([80, 200, 400]) if cfg["d"] == 2 else rng.choice([300, 600])
        if cfg["d"] == 2 and rng.random() < 0.35:
            # high-order local grids switch the automatic extend / split decision to the parent-estimation path
            cfg["grid"] = "ClenshawCurtis"      # (Gauss-Legendre grids have no boundary points: the interpolation calls of this check do not apply)
            cfg["boundary"], cfg["single_dim"], cfg["version"] = True, False, 0
            cfg["automatic"] = rng.random() < 0.7
            M = rng.choice([80, 200])
            res.count("high_order_local_grid")
    cfg["profile"] = rng.choice(["real", "real", "geomhash"])
    d = cfg["d"]
    fname, fac = make_function(rng, d)
    res.sample = {"config": cfg, "function": fname, "M": M}
    args = dict(lmin=cfg["lmin"], lmax=cfg["lmax"], tol=-1.0, do_plot=False, print_output=False)
    # uninterrupted run
    cu, eu = build(strategy, cfg, fac(), guard=DepthGuard())
    try:
        ru = quiet(cu.performSpatiallyAdaptiv, errorOperator=eu, max_evaluations=M, **args)
    except hooks.StopHistory:
        res.note("uninterrupted_run_reaches_floating_point_resolution:case_skipped")
        res.hash = digest(["depth_guard", case["seed"]])
        return
    cu.vobs = None
    pts_u = [int(x) for x in ru[6]]
    su = state(strategy, cu)
    result_u = np.array(ru[3], dtype=float)
    npts_u = cu.get_total_num_points()
    scale = max(1e-300, float(np.max(np.abs(result_u))))
    ks = list(range(len(pts_u) - 1))
    if len(ks) > (6 if tier == "quick" else 12):
        ks = sorted(rng.sample(ks, 6 if tier == "quick" else 12))
    if strategy == "dimwise" and len(pts_u) >= 2 and pts_u[-1] != pts_u[-2]:
        ks.append(len(pts_u) - 1)     # interrupted exactly where the uninterrupted run ends: the continuation has nothing to refine
    P = [tuple(rng.random() for _ in range(d)) for _ in range(64)]
    trace = []
    for k in ks:
        if k > 0 and pts_u[k] == pts_u[k - 1]:
            continue
        ctx = {"cfg": cfg, "function": fname, "M": M, "k": k, "points_U": pts_u}
        for variant in ("continue", "restore"):
            ca, ea = build(strategy, cfg, fac())
            rev = rng.random() < 0.3     # the interrupted leg asks for the final re-evaluation from scratch
            if rev:
                res.count("interrupted_leg_with_reevaluate_at_end")
            ra = quiet(ca.performSpatiallyAdaptiv, errorOperator=ea, max_evaluations=pts_u[k] - 1, reevaluate_at_end=rev, **args)
            stopped_at = len(ra[6]) - 1
            res.check("interruption_point", stopped_at == k, "C14_harness_interruption_point",
                      "harness: twin stopped at evaluation %d instead of %d" % (stopped_at, k), ctx)
            obj = ca
            if variant == "restore":
                path = os.path.join(os.getcwd(), "c14_%d_%d.dill" % (case["seed"] % 100000, k))
                if k > 0 and rng.random() < 0.5:
                    # the checkpoint file already holds an OLDER checkpoint of the same run (stopped at evaluation 0)
                    cz, ez = build(strategy, cfg, fac())
                    quiet(cz.performSpatiallyAdaptiv, errorOperator=ez, max_evaluations=pts_u[0] - 1, **args)
                    quiet(cz.save_to_file, path)
                    res.count("checkpoint_overwrites_older_file")
                quiet(ca.save_to_file, path)
                obj = StandardCombi.restore_from_file(path)     # continued below
                probe = StandardCombi.restore_from_file(path)   # only used for the comparison with the saved instance:
                os.remove(path)                                 # __call__ evaluates the integrand and fills per-area caches
                r_saved = np.array(ca.operation.get_result(), dtype=float)
                r_rest = np.array(probe.operation.get_result(), dtype=float)
                res.check("restore_identical_result", np.array_equal(r_saved, r_rest), "C14_restore_result_differs",
                          "result of the restored instance differs bitwise from the saved instance", ctx)
                vs, vr = np.asarray(quiet(ca, P)), np.asarray(quiet(probe, P))
                res.check("restore_identical_interpolation", np.array_equal(vs, vr), "C14_restore_interpolation_differs",
                          "interpolation of the restored instance differs from the saved instance (max %.3g)" % float(np.max(np.abs(vs - vr))), ctx)
                res.check("restore_identical_structure", state(strategy, ca) == state(strategy, probe) == state(strategy, obj), "C14_restore_structure_differs",
                          "refinement structure / scheme of the restored instance differs from the saved instance", ctx)
            if strategy == "dimwise" and rng.random() < 0.4:
                # the user looks at the interpolant of the stopped / restored instance before going on
                quiet(obj, P)
                res.count("interpolation_call_before_continue")
            rc = quiet(obj.continue_adaptive_refinement, tol=-1.0, max_evaluations=M)
            sc = state(strategy, obj)
            pre = "restored_continue" if variant == "restore" else "continue"
            if strategy == "dimwise":   # extend-split: the per-area evaluation total is part of the known finding F6 (areas evaluated twice)
                res.check("continue_returned_evaluations", int(rc[4]) == int(ru[4]), "C14_%s_returned_evaluations_differ:%s" % (pre, strategy),
                          "%s from evaluation %d: continue_adaptive_refinement returns %d evaluations, the uninterrupted run returns %d" % (
                              variant, k, int(rc[4]), int(ru[4])), ctx)
            if rng.random() < 0.3:
                # asking again with limits that are already met changes nothing
                rc2 = quiet(obj.continue_adaptive_refinement, tol=-1.0, max_evaluations=M)
                same = (state(strategy, obj) == sc and int(rc2[4]) == int(rc[4]) and obj.get_total_num_points() == npts_u
                        and np.allclose(np.array(rc2[3], dtype=float), np.array(rc[3], dtype=float), rtol=1e-11, atol=1e-11 * scale))
                res.check("second_continue_is_idempotent", same or strategy == "extsplit", "C14_second_continue_changes_state:%s" % strategy,
                          "%s from evaluation %d: a second continue_adaptive_refinement with the same (already met) limits changed the state: "
                          "evaluations %d -> %d, points %d" % (variant, k, int(rc[4]), int(rc2[4]), obj.get_total_num_points()), ctx)
                rc = rc2
            suffix = ":" + strategy + (":first_leg_reevaluate_at_end" if rev else "")
            if rev and strategy == "extsplit" and cfg.get("version", 0) in (1, 2):
                suffix += ":version12"
            res.check(pre + "_structure", sc[0] == su[0], "C14_%s_structure_differs%s" % (pre, suffix),
                      "%s from evaluation %d: final refinement structure differs from the uninterrupted run" % (variant, k), ctx)
            res.check(pre.replace("restored_continue", "restored_continue") + "_scheme" if variant == "continue" else "restored_continue_scheme",
                      sc[1] == su[1] and sc[2] == su[2], "C14_%s_scheme_differs%s" % (pre, suffix),
                      "%s from evaluation %d: final scheme / lmax differs from the uninterrupted run" % (variant, k), ctx)
            res.close(pre + "_result", np.array(rc[3], dtype=float), result_u, 1e-11 * scale, "C14_%s_result_differs%s" % (pre, suffix),
                      "%s from evaluation %d: final combined result differs from the uninterrupted run" % (variant, k), ctx)
            res.check(pre + "_points" if variant == "continue" else "restored_continue_points", obj.get_total_num_points() == npts_u,
                      "C14_%s_point_count_differs%s" % (pre, suffix),
                      "%s from evaluation %d: %d points instead of %d" % (variant, k, obj.get_total_num_points(), npts_u), ctx)
            if 0 < k:
                res.states.add(digest([strategy, cfg, k, variant]))
        trace.append(k)
    chain_continuation(res, rng, strategy, cfg, fname, fac, M, args, pts_u, su, result_u, npts_u, cu, P)
    if strategy == "dimwise":
        tolerance_continuation(case, res, rng, cfg, fname, fac, M)
    res.hash = digest([strategy, cfg, fname, M])
    res.nontrivial = any(0 < k for k in trace)
    res.count("interruption_points", len(trace))
    res.sample = {"config": cfg, "function": fname, "M": M, "points_U": pts_u, "interrupted_at": trace}

RULE += (" " + 'The uninterrupted run carries a depth guard (a case that reaches floating-point resolution is skipped); vector-valued integrands; Clenshaw-Curtis local grids with the automatic extend / split decision.')
