"""C16 — density estimation solves the right linear system."""
import contextlib
import io
import random

import numpy as np

from vlib import demodel, trees
from vlib import refmodels as rm
from vlib.common import case_seed, digest

RULE = ("real DensityEstimation objects driven at their public methods on generated (grid, data) pairs: uniform component grids "
        "(anisotropic level vectors, 1..300 points, both sides of the 200-point switch) and non-uniform refinement-tree stripes "
        "(dimension-wise path), d=1..3, data sets of 1..300 samples in [0,1]^d (random / clustered / on grid lines / on grid points / "
        "on the domain boundary / duplicated), lambda in {0,1e-3,0.1,1}, mass lumping on/off, with/without +-1 labels; plus whole "
        "StandardCombi runs followed by combi(points). Oracle: Kronecker hat Gram matrix + lambda I, mean-of-hats right-hand side, "
        "agreement of all hat evaluators, normalisation and proportionality of the returned surpluses, combined interpolant. "
        "distinct = digest(path, grid, data digest); non-trivial = anisotropic or non-uniform grid with >=3 points in a dimension")
RULE += (" In 45% of the dimension-wise cases other component grids of the SAME iteration (nearly the same coordinates, other neighbours) are computed with the operation object first.")
RULE += (" " + 'One operation object is used for several level vectors in a row (permuted level vectors with equal point counts, incl. (4,5)/(5,4) above the 200-point switch); in combination runs the surpluses of every component grid are compared with the reference solution of its own system.')
RULE += (" Uniform grids go up to d=5; refinement-tree grids WITH boundary points (matrix and right-hand side, samples strictly inside) are a further generator.")
REQUIRED = ["R_equals_gram_uniform", "R_equals_gram_dimwise", "R_masslumped", "R_spd", "b_uniform", "b_dimwise",
            "hat_evaluators_agree", "surpluses_match_reference_uniform", "surpluses_match_reference_dimwise",
            "normalisation", "combi_interpolant"]
MIN_NONTRIVIAL = {"quick": 250, "thorough": 4000}
CHUNK = {"quick": 25, "thorough": 200}
ASSUMPTIONS = ["data pre-scaled into the unit cube (pre_scaled_data=True); labels are +-1",
               "numeric (nquad) matrix entries are compared on tiny grids (quick: 1-D, <= 4 points; thorough: <= 9 points)"]


def cases(tier, seed):
    n1, n2, n3 = (330, 330, 40) if tier == "quick" else (6000, 6000, 400)
    out = [{"gen": "uniform", "seed": case_seed(seed, "C16", "uniform", i), "tier": tier} for i in range(n1)]
    out += [{"gen": "dimwise", "seed": case_seed(seed, "C16", "dimwise", i), "tier": tier} for i in range(n2)]
    out += [{"gen": "dimwise_boundary", "seed": case_seed(seed, "C16", "dimwise_boundary", i), "tier": tier} for i in range(n2 // 4)]
    out += [{"gen": "combi", "seed": case_seed(seed, "C16", "combi", i), "tier": tier} for i in range(n3)]
    return out


def gen_data(rng, d, xs=None):
    npr = np.random.RandomState(rng.randrange(2 ** 31))
    m = rng.choice([1, 2, 3, 7, 20, 60, 150, 300])
    style = rng.choice(["random", "clustered", "gridlines", "gridpoints", "boundary", "duplicates"])
    X = npr.rand(m, d)
    if style == "clustered":
        c = npr.rand(3, d)
        X = np.clip(c[npr.randint(0, 3, m)] + 0.05 * npr.randn(m, d), 0, 1)
    elif style in ("gridlines", "gridpoints") and xs is not None:
        for s in range(m):
            for k in range(d):
                if style == "gridpoints" or npr.rand() < 0.5:
                    X[s, k] = xs[k][npr.randint(0, len(xs[k]))]
    elif style == "boundary":
        for s in range(m):
            k = npr.randint(d)
            X[s, k] = float(npr.randint(0, 2))
    elif style == "duplicates" and m > 2:
        X[m // 2:] = X[:m - m // 2]
    labels = None
    if rng.random() < 0.4:
        labels = npr.choice([-1.0, 1.0], size=m)
        if m >= 2:
            labels[0], labels[1] = 1.0, -1.0
    return X, labels, style


def make_op(X, labels, d, grid=None, **kw):
    from sparseSpACE.GridOperation import DensityEstimation
    with contextlib.redirect_stdout(io.StringIO()):
        op = DensityEstimation(X.copy(), d, grid=grid, classes=None if labels is None else labels.copy(), pre_scaled_data=True,
                               print_output=False, log_level=100, print_level=100, **kw)
        op.initialize()
    return op


class Dummy:
    def __init__(self):
        self.value = np.zeros(1)


def hat_agreement(res, op, xs, X, cfg, uniform_levels=None):
    """all hat evaluators against the reference at the data points (incl. points on cell boundaries / grid points)"""
    ref = demodel.hat_matrix(xs, X)
    pts, lower, upper = op.get_hat_domain_for_every_grid_point_vectorized(xs)
    got = np.asarray(op.hat_function_non_symmetric_completely_vectorized(pts, lower, upper, X))
    res.close("hat_evaluators_agree", got, ref, 1e-13, "C16_hat:completely_vectorized", "hat_function_non_symmetric_completely_vectorized differs from the reference hat", cfg)
    for s in range(min(len(X), 6)):
        for i in range(0, len(pts), max(1, len(pts) // 7)):
            dom = list(zip(lower[i], upper[i]))
            v = op.hat_function_non_symmetric(pts[i], dom, X[s])
            res.close("hat_evaluators_agree", v, ref[s, i], 1e-13, "C16_hat:scalar", "hat_function_non_symmetric differs from the reference hat", cfg)
    if uniform_levels is not None:
        lv = np.asarray(uniform_levels, dtype=int)
        idx = np.array(list(np.ndindex(*[2 ** int(l) - 1 for l in lv])), dtype=int) + 1
        got2 = np.asarray(op.hat_function_in_support_completely_vectorized(idx, lv, X))
        res.close("hat_evaluators_agree", got2, ref, 1e-13, "C16_hat:in_support_completely_vectorized",
                  "hat_function_in_support_completely_vectorized differs from the reference hat", cfg)
        for s in range(min(len(X), 4)):
            for i in range(0, len(idx), max(1, len(idx) // 5)):
                res.close("hat_evaluators_agree", op.hat_function(idx[i], lv, X[s]), ref[s, i], 1e-13, "C16_hat:hat_function",
                          "hat_function differs from the reference hat", cfg)


def run_uniform(case, res):
    rng = random.Random(case["seed"])
    d = rng.choice([1, 2, 2, 2, 3, 3, 4, 5])
    while True:
        lv = [rng.randint(1, {1: 8, 2: 5, 3: 3, 4: 2, 5: 2}[d]) for _ in range(d)]
        if d >= 4 and rng.random() < 0.5:
            lv[rng.randrange(d)] = 3
        if d == 2 and rng.random() < 0.25:
            lv = rng.choice([[4, 5], [5, 4], [3, 5], [5, 3], [6, 2], [2, 6]])
        N = int(np.prod([2 ** l - 1 for l in lv]))
        if N <= 500:
            break
    xs = demodel.uniform_stripes(lv)
    X, labels, style = gen_data(rng, d, xs)
    lam = rng.choice([0.0, 1e-3, 0.1, 1.0] * 5 + [1e9])     # rarely a very strong regulariser (tiny surpluses before the normalisation)
    ml = rng.random() < 0.25
    cfg = {"path": "uniform", "d": d, "levels": lv, "N": N, "M": len(X), "data": style, "lambda": lam, "masslumping": ml, "labels": labels is not None}
    res.sample = {"config": cfg}
    op = make_op(X, labels, d, masslumping=ml, lambd=lam)
    if d >= 2 and rng.random() < 0.5:
        # the combination technique evaluates many level vectors on ONE operation object: a permuted level vector
        # (same number of points, different layout) is evaluated first
        plv = list(lv)
        rng.shuffle(plv)
        if plv == list(lv):
            plv = plv[1:] + plv[:1]
        op.grid.numPoints = 2 ** np.asarray(plv, dtype=int) - 1
        op.calculate_B(op.data, plv)
        if rng.random() < 0.5:
            op.solve_density_estimation(plv)
        res.count("history_permuted_levelvector")
        cfg["history"] = plv
    op.grid.numPoints = 2 ** np.asarray(lv, dtype=int) - 1
    G = demodel.gram(xs)
    R = op.build_R_matrix(lv)
    if ml:
        res.close("R_masslumped", float(R), float(G[0, 0]), 1e-14, "C16_R_masslumped:uniform", "mass-lumped R differs from the Gram diagonal", cfg)
        res.check("R_masslumped", np.allclose(np.diag(G), G[0, 0], rtol=1e-13), "C16_refmodel", "reference diagonal not constant")
    else:
        res.close("R_equals_gram_uniform", np.asarray(R), G + lam * np.eye(N), 1e-13 * max(1.0, lam), "C16_R_uniform",
                  "build_R_matrix differs from hat Gram matrix + lambda I", cfg)
        ev = np.linalg.eigvalsh(np.asarray(R))
        res.check("R_spd", np.allclose(R, np.asarray(R).T, atol=0) and ev[0] > 0, "C16_R_not_spd:uniform", "R not symmetric positive definite (min eig %r)" % ev[0], cfg)
    b = np.asarray(op.calculate_B(op.data, lv), dtype=float)
    A = demodel.hat_matrix(xs, X)
    s = np.ones(len(X)) if labels is None else labels
    bref = (A * s[:, None]).sum(axis=0) / len(X)
    res.close("b_uniform", b, bref, 1e-13, "C16_b_uniform:" + ("large" if N >= 200 else "small"), "calculate_B differs from the mean of the hat functions", cfg)
    hat_agreement(res, op, xs, X, cfg, uniform_levels=lv)
    alphas = np.asarray(op.solve_density_estimation(lv), dtype=float)
    if ml:
        x0 = bref / G[0, 0]
    else:
        x0 = np.linalg.solve(G + lam * np.eye(N), bref)
    exp = demodel.normalise(x0, None, labels is not None, weighted=False)
    cnd = 1.0 if ml else float(np.linalg.cond(G + lam * np.eye(N)))
    tol = 1e-12 * max(1.0, float(np.max(np.abs(exp)))) * max(1.0, cnd)
    res.close("surpluses_match_reference_uniform", alphas, exp, tol, "C16_surpluses_uniform" + (":masslumping" if ml else ""),
              "solve_density_estimation differs from the normalised solution of (Gram + lambda I) x = b", cfg)
    mpos = float(np.sum(np.clip(alphas, 0, None)) / len(alphas))
    if float(np.sum(np.clip(x0 - (np.mean(x0) if labels is not None else 0.0), 0, None))) != 0.0:
        res.close("normalisation", mpos, 1.0, 1e-10, "C16_normalisation:uniform", "mean of the positive parts of the surpluses is %r, not 1" % mpos, cfg)
    res.hash = digest([cfg, X.tobytes().hex()[:64]])
    res.nontrivial = len(set(lv)) > 1 or max(lv) >= 2
    res.states.add(digest(["u", lv, ml, labels is not None]))


def run_dimwise(case, res):
    import sparseSpACE.Grid as Gd
    from sparseSpACE.ComponentGridInfo import ComponentGridInfo
    rng = random.Random(case["seed"])
    tier = case.get("tier", "quick")
    d = rng.choice([1, 2, 2, 3])
    caps = {1: [4, 5, 7, 9, 12, 17, 33, 65, 129, 257], 2: [4, 5, 6, 7, 9, 12, 17], 3: [4, 5, 6, 7]}[d]
    while True:
        ns = [rng.choice(caps) for _ in range(d)]
        N = int(np.prod([n - 2 for n in ns]))
        if 1 <= N <= 260:
            break
    if rng.random() < 0.12:
        d, ns = 2, rng.choice([[17, 17], [16, 17], [17, 16]])     # above the 200-point switch of the right-hand side
    xs, levs = [], []
    for k in range(d):
        P, L = trees.gen_tree(rng, 0.0, 1.0, n_points=ns[k])
        xs.append([float(x) for x in P])
        levs.append(L)
    ns = [len(x) for x in xs]
    N = int(np.prod([n - 2 for n in ns]))
    X, labels, style = gen_data(rng, d, xs)
    if N < 200 and rng.random() < 0.08:
        # samples stored in single precision (exactly representable in double precision); small grids evaluate all hats in one
        # vectorised call, whose result must not depend on the storage type of the samples
        X = X.astype(np.float32)
        style += "_float32"
        res.count("single_precision_samples")
    lam = rng.choice([0.0, 1e-3, 0.1, 1.0] * 5 + [1e9])     # rarely a very strong regulariser (tiny surpluses before the normalisation)
    ml = rng.random() < 0.25
    numeric = (N <= 9 and rng.random() < 0.3) if tier == "thorough" else (N <= 4 and d == 1 and rng.random() < 0.5)
    if numeric:
        res.count("numeric_matrix_entries")
    cfg = {"path": "dimwise", "d": d, "n": ns, "N": N, "M": len(X), "data": style, "lambda": lam, "masslumping": ml,
           "labels": labels is not None, "numeric": numeric, "levels": levs}
    res.sample = {"config": cfg}
    a, b = np.zeros(d), np.ones(d)
    grid = Gd.GlobalTrapezoidalGrid(a=a, b=b, boundary=False)
    gs = Gd.GlobalTrapezoidalGrid(a=a, b=b, boundary=False)
    op = make_op(X, labels, d, grid=grid, masslumping=ml, lambd=lam, numeric_calculation=numeric)
    cont = Dummy()
    lvv = [max(l) for l in levs]
    op.init_dimension_wise(grid, gs, cont, [1] * d, [max(lvv)] * d, a, b, 6)
    with contextlib.redirect_stdout(io.StringIO()):
        op.initialize_evaluation_dimension_wise(cont)
    if rng.random() < 0.45 and not numeric:
        # one adaptive iteration computes ALL component grids with the same operation object before the next initialisation: other
        # grids of the same iteration (same or nearly the same coordinates, other neighbours) are computed first
        for _ in range(rng.choice([1, 2])):
            hx, hl = [], []
            for k in range(d):
                P_, L_ = trees.variant(rng, xs[k], levs[k]) if rng.random() < 0.7 else (list(xs[k]), list(levs[k]))
                hx.append([float(x) for x in P_])
                hl.append([int(x) for x in L_])
            try:
                with contextlib.redirect_stdout(io.StringIO()):
                    if rng.random() < 0.5:
                        op.calculate_B_dimension_wise(op.data, hx, hl)
                    else:
                        op.calculate_operation_dimension_wise(hx, hl, ComponentGridInfo([max(l) + 1 for l in hl], 1))
                res.count("other_grids_of_the_same_iteration_first")
            except (AssertionError, ValueError, IndexError, np.linalg.LinAlgError):
                pass
        cfg["history_same_iteration"] = True
    G = demodel.gram(xs)
    R = np.asarray(op.build_R_matrix_dimension_wise(xs, levs), dtype=float)
    tolR = 1e-8 if numeric else 1e-13
    if ml:
        res.close("R_masslumped", R, np.diag(G) + lam, tolR * max(1.0, lam), "C16_R_masslumped:dimwise", "mass-lumped R differs from Gram diagonal + lambda", cfg)
    else:
        res.close("R_equals_gram_dimwise", R, G + lam * np.eye(N), tolR * max(1.0, lam), "C16_R_dimwise" + (":numeric" if numeric else ""),
                  "build_R_matrix_dimension_wise differs from hat Gram matrix + lambda I", cfg)
        ev = np.linalg.eigvalsh(R)
        res.check("R_spd", bool(np.array_equal(R, R.T)) and ev[0] > 0, "C16_R_not_spd:dimwise", "R not symmetric positive definite (min eig %r)" % ev[0], cfg)
    bvec = np.asarray(op.calculate_B_dimension_wise(op.data, xs, levs), dtype=float)
    A = demodel.hat_matrix(xs, X)
    s = np.ones(len(X)) if labels is None else labels
    bref = (A * s[:, None]).sum(axis=0) / len(X)
    res.close("b_dimwise", bvec, bref, 1e-13, "C16_b_dimwise:" + ("large" if N >= 200 else "small"),
              "calculate_B_dimension_wise differs from the mean of the hat functions", cfg)
    hat_agreement(res, op, xs, X, cfg)
    cg = ComponentGridInfo(lvv, 1)
    with contextlib.redirect_stdout(io.StringIO()):
        op.calculate_operation_dimension_wise(xs, levs, cg)
    alphas = np.asarray(op.surpluses[tuple(lvv)], dtype=float)
    w = demodel.weights(xs)
    if ml:
        x0 = bref / (np.diag(G) + lam)
    else:
        x0 = np.linalg.solve(G + lam * np.eye(N), bref)
    exp = demodel.normalise(x0, w, labels is not None, weighted=True)
    cnd = 1.0 if ml else float(np.linalg.cond(G + lam * np.eye(N)))
    tol = (1e-7 if numeric else 1e-12) * max(1.0, float(np.max(np.abs(exp)))) * max(1.0, cnd)
    res.close("surpluses_match_reference_dimwise", alphas, exp, tol, "C16_surpluses_dimwise" + (":masslumping" if ml else ""),
              "dimension-wise surpluses differ from the normalised solution of (Gram + lambda I) x = b", cfg)
    mpos = float(np.inner(np.clip(alphas, 0, None), w) / np.sum(w))
    shifted = x0 - (np.inner(x0, w) / np.sum(w) if labels is not None else 0.0)
    if float(np.inner(np.clip(shifted, 0, None), w)) != 0.0:
        res.close("normalisation", mpos, 1.0, 1e-10, "C16_normalisation:dimwise", "weighted mean of the positive parts is %r, not 1" % mpos, cfg)
    res.hash = digest([cfg, X.tobytes().hex()[:64]])
    res.nontrivial = max(ns) >= 5
    res.states.add(digest(["d", levs, ml, labels is not None]))


def hat_matrix_with_boundary(xs, data):
    data = np.asarray(data, dtype=float).reshape(len(data), -1)
    Hs = []
    for k in range(len(xs)):
        x = np.asarray(xs[k], dtype=float)
        H = np.zeros((len(data), len(x)))
        for i in range(len(x)):
            H[:, i] = rm.hat_nonuniform(x, i, data[:, k])
        Hs.append(H)
    A = Hs[0]
    for k in range(1, len(xs)):
        A = (A[:, :, None] * Hs[k][:, None, :]).reshape(len(data), -1)
    return A


def run_dimwise_boundary(case, res):
    """Refinement-tree component grids WITH boundary points (GlobalTrapezoidalGrid(boundary=True)): system matrix and right-hand
    side on both sides of the 200-point switch.  Samples lie strictly inside the unit cube (the density-estimation code documents
    boundary grids as not fully supported; samples on the domain boundary of such grids are not generated)."""
    import sparseSpACE.Grid as Gd
    rng = random.Random(case["seed"])
    d = rng.choice([1, 2, 2, 3])
    caps = {1: [3, 4, 5, 7, 9, 17, 33], 2: [3, 4, 5, 7, 9, 12], 3: [3, 4, 5, 6]}[d]
    while True:
        ns = [rng.choice(caps) for _ in range(d)]
        N = int(np.prod(ns))
        if N <= 260:
            break
    if rng.random() < 0.3:
        d, ns = 2, rng.choice([[15, 15], [14, 15], [17, 12], [9, 25]])     # above the 200-point switch
    xs, levs = [], []
    for k in range(d):
        P, L = trees.gen_tree(rng, 0.0, 1.0, n_points=ns[k])
        xs.append([float(x) for x in P])
        levs.append(L)
    ns = [len(x) for x in xs]
    N = int(np.prod(ns))
    X, labels, style = gen_data(rng, d, xs)
    X = np.clip(X, 1e-3, 1 - 1e-3)
    lam = rng.choice([0.0, 1e-3, 0.1, 1.0] * 5 + [1e9])     # rarely a very strong regulariser (tiny surpluses before the normalisation)
    cfg = {"path": "dimwise_boundary", "d": d, "n": ns, "N": N, "M": len(X), "data": style, "lambda": lam, "labels": labels is not None,
           "levels": levs}
    res.sample = {"config": cfg}
    a, b = np.zeros(d), np.ones(d)
    grid = Gd.GlobalTrapezoidalGrid(a=a, b=b, boundary=True)
    gs = Gd.GlobalTrapezoidalGrid(a=a, b=b, boundary=True)
    op = make_op(X, labels, d, grid=grid, masslumping=False, lambd=lam)
    cont = Dummy()
    lvv = [max(l) for l in levs]
    op.init_dimension_wise(grid, gs, cont, [1] * d, [max(lvv)] * d, a, b, 6)
    with contextlib.redirect_stdout(io.StringIO()):
        op.initialize_evaluation_dimension_wise(cont)
    G = rm.kron_all([rm.gram_mass_1d(x, boundary=True) for x in xs])
    R = np.asarray(op.build_R_matrix_dimension_wise(xs, levs), dtype=float)
    res.close("R_equals_gram_dimwise_boundary", R, G + lam * np.eye(N), 1e-13 * max(1.0, lam), "C16_R_dimwise:boundary_points",
              "build_R_matrix_dimension_wise (grid with boundary points) differs from hat Gram matrix + lambda I", cfg)
    bvec = np.asarray(op.calculate_B_dimension_wise(op.data, xs, levs), dtype=float)
    A = hat_matrix_with_boundary(xs, X)
    s = np.ones(len(X)) if labels is None else labels
    bref = (A * s[:, None]).sum(axis=0) / len(X)
    res.close("b_dimwise_boundary", bvec, bref, 1e-13, "C16_b_dimwise:boundary_points:" + ("large" if N >= 200 else "small"),
              "calculate_B_dimension_wise (grid with boundary points) differs from the mean of the hat functions", cfg)
    res.hash = digest([cfg, X.tobytes().hex()[:64]])
    res.nontrivial = max(ns) >= 4
    res.states.add(digest(["db", levs, labels is not None]))


def run_combi(case, res):
    from sparseSpACE.StandardCombi import StandardCombi
    rng = random.Random(case["seed"])
    d = rng.choice([2, 2, 3])
    lmin = rng.choice([1, 2])
    lmax = lmin + rng.choice([1, 2, 3]) if d == 2 else lmin + rng.choice([1, 2])
    if d == 2 and rng.random() < 0.2:
        lmin, lmax = 1, 8      # component grids above the 200-point switch (255 x 1)
    elif d == 2 and rng.random() < 0.2:
        lmin, lmax = 4, 5      # consecutive component grids (4,5),(5,4): equal point count above the switch
    X, labels, style = gen_data(rng, d, demodel.uniform_stripes([lmax] * d))
    lam = rng.choice([0.0, 1e-3, 0.1])
    ml = rng.random() < 0.3 or (lmin, lmax) == (4, 5)
    cfg = {"path": "combi", "d": d, "lmin": lmin, "lmax": lmax, "M": len(X), "data": style, "lambda": lam, "masslumping": ml, "labels": labels is not None}
    res.sample = {"config": cfg}
    op = make_op(X, labels, d, masslumping=ml, lambd=lam)
    combi = StandardCombi(np.zeros(d), np.ones(d), operation=op, print_output=False, log_level=100, print_level=100)
    with contextlib.redirect_stdout(io.StringIO()):
        combi.perform_operation(lmin, lmax)
    P = [tuple(rng.random() for _ in range(d)) for _ in range(40)]
    P += [tuple(rng.choice([0.25, 0.5, 0.75, rng.random()]) for _ in range(d)) for _ in range(20)]
    with contextlib.redirect_stdout(io.StringIO()):
        got = np.asarray(combi(P), dtype=float).reshape(len(P))
    exp = np.zeros(len(P))
    maxN = 0
    for g in combi.scheme:
        lv = [int(x) for x in g.levelvector]
        xs = demodel.uniform_stripes(lv)
        al = np.asarray(op.surpluses[tuple(lv)], dtype=float)
        maxN = max(maxN, len(al))
        exp += g.coefficient * demodel.interpolate(xs, al, P)
        if len(al) <= 500:
            Gm = demodel.gram(xs)
            sgn = np.ones(len(X)) if labels is None else labels
            bref = (demodel.hat_matrix(xs, X) * sgn[:, None]).sum(axis=0) / len(X)
            x0 = bref / Gm[0, 0] if ml else np.linalg.solve(Gm + lam * np.eye(len(al)), bref)
            ref = demodel.normalise(x0, None, labels is not None, weighted=False)
            cnd = 1.0 if ml else float(np.linalg.cond(Gm + lam * np.eye(len(al))))
            res.close("combi_component_surpluses", al, ref, 1e-12 * max(1.0, float(np.max(np.abs(ref)))) * max(1.0, cnd),
                      "C16_combi_component_surpluses:" + ("large" if len(al) >= 200 else "small"),
                      "surpluses of component grid %s inside a combination run differ from the normalised solution of its own system" % (lv,), cfg)
    sc = max(1.0, float(np.max(np.abs(exp)))) * sum(abs(g.coefficient) for g in combi.scheme)
    res.close("combi_interpolant", got, exp, 1e-11 * sc, "C16_combi_interpolant:" + ("large" if maxN >= 200 else "small"),
              "combi(points) differs from the coefficient-weighted hat interpolants of the returned surpluses", cfg)
    res.hash = digest([cfg, X.tobytes().hex()[:64]])
    res.nontrivial = True
    res.states.add(digest(["c", d, lmin, lmax]))


def crash_sig(case, ex, where, tb):
    return "C16_crash:%s:%s@%s" % (case["gen"], type(ex).__name__, where)


def run_case(case, res):
    {"uniform": run_uniform, "dimwise": run_dimwise, "dimwise_boundary": run_dimwise_boundary, "combi": run_combi}[case["gen"]](case, res)

RULE += (" " + 'lambda = 1e9 in a few cases; single-precision sample arrays on small refinement-tree grids.')
