"""C13 — the adaptive driver honours its stopping rules and reports truthful numbers."""
import io
import contextlib
import math
import random

import numpy as np

from vlib import dimwise, extsplit, hooks
from vlib.common import case_seed, digest

RULE = ("real adaptive runs of the three strategies (dimension-wise, extend-split, cell) over generated limits: tol in "
        "{-1,0,1e-6,1e-3,1e-2,10}, min_evaluations in {1,40,10^4}, max_evaluations in {0,1,30,200,600}, norm in {1,2,inf}, "
        "scalar and vector-valued integrands, no / zero / non-zero reference (a two-pass construction puts the reference near "
        "the converged value so that tolerance stops occur in the middle of a run); refinement by the real estimator or seeded "
        "hostile error values. Observers record the EVAL/REFINE event list; the oracle is evaluated offline on the trace and "
        "on the returned tuple. distinct = digest of (strategy, limits, number of evaluations); non-trivial = run with >=2 "
        "evaluations, or a limit already met at the first evaluation")
RULE += (" " + 'Integrand output scales 1e-9..1e3; limits that TIE with an attained point count.')
RULE += (" 40% of the dimension-wise / extend-split runs are followed by continue_adaptive_refinement with other limits (tighter / looser tolerance, more points, limits already met, minimum only); the stop rule is judged per call segment with the limits of that call.")
RULE += (" A fifth of the observed runs are the SECOND run on the same strategy object (an earlier run with other limits came first).")
REQUIRED = ["stop_rule_last", "stop_rule_not_before", "one_refine_between_evals", "array_lengths", "arrays_match_events",
            "points_monotone", "nonnegative_finite", "error_formula", "point_count_is_distinct_evaluations",
            "stopped_at_first_evaluation", "stopped_by_tolerance_midrun", "stopped_by_max",
            "continued_stop_rule_last", "continued_stop_rule_not_before"]
MIN_NONTRIVIAL = {"quick": 150, "thorough": 2000}
CHUNK = {"quick": 12, "thorough": 60}
SHARD_TIMEOUT = {"quick": 1200, "thorough": 7200}
ASSUMPTIONS = ["max_time is not exercised", "reference solutions are all-zero or all-non-zero vectors",
               "both the plain and the length-normalised p-norm (the form the code documents) are accepted for the error"]

STRATS = ["dimwise", "dimwise", "extsplit", "extsplit", "cell"]


def cases(tier, seed):
    n = 900 if tier == "quick" else 20000
    return [{"gen": "run", "seed": case_seed(seed, "C13", "run", i), "tier": tier} for i in range(n)]


class Rec(hooks.Observer):
    def __init__(self, f):
        super().__init__(10 ** 9, None, max_depth=40, max_points=None)
        self.f = f
        self.events = []
        self.same = 0
        self.last_key = None
        self.pre_init = 0

    def before_evaluate(self, c):
        if self.evals == 0 and self.f.since_mark is None:
            self.pre_init = len(self.f.eval_points)   # evaluated during initialisation, before the dictionary reset
            self.f.mark()

    def after_refine(self, c):
        super().after_refine(c)
        self.events.append(("REFINE",))

    def after_evaluate(self, c, r):
        super().after_evaluate(c, r)
        err, surplus = r
        objs = []
        try:
            if hasattr(c.refinement, "refinementContainers"):
                for cont in c.refinement.refinementContainers:
                    objs += cont.get_objects()
            else:
                objs = c.refinement.get_objects()
        except Exception:
            pass
        bens = [o.benefit for o in objs if getattr(o, "benefit", None) is not None]
        errs = [o.error for o in objs if getattr(o, "error", None) is not None]
        key = (c.get_total_num_points(), len(objs), float(err))
        self.same = self.same + 1 if key == self.last_key else 0
        self.last_key = key
        if self.same >= 6:
            raise hooks.StopHistory("livelock")
        self.events.append(("EVAL", err, surplus, c.get_total_num_points(), (len(self.f.eval_points), len(self.f.since_mark)),
                            np.array(c.operation.get_result(), dtype=float).copy(),
                            [float(np.max(b)) if np.size(b) else 0.0 for b in bens][:2000],
                            [float(np.min(b)) if np.size(b) else 0.0 for b in bens + errs][:4000]))


def make_integrand(rng, d, nout, seed):
    comps = []
    for j in range(nout):
        kind = rng.choice(["smooth", "peak", "smooth", "discont", "multilinear"])
        if kind == "smooth":
            comps.append(hooks.comp_smooth(seed + j, d))
        elif kind == "peak":
            comps.append(hooks.comp_peak([rng.uniform(0.2, 0.8) for _ in range(d)], rng.uniform(0.15, 0.5)))
        elif kind == "discont":
            comps.append(hooks.comp_discont([rng.uniform(0.3, 0.7) for _ in range(d)]))
        else:
            comps.append(hooks.comp_multilinear([(rng.uniform(0.5, 2), rng.uniform(-1, 1)) for _ in range(d)]))
    return comps


def build(strategy, cfg, f, obs, reference, norm):
    if strategy == "dimwise":
        cfg = dict(cfg, reference=reference, norm=norm)
        c = dimwise.build(cfg, f, obs)
        err = hooks.RandErr(cfg["errseed"], cfg["profile"], cfg["d"], cfg["a"], cfg["b"])
        return c, err
    if strategy == "extsplit":
        c = extsplit.build(cfg, f, obs, reference=reference, norm=norm)
        return c, extsplit.make_err(cfg)
    from sparseSpACE.spatiallyAdaptiveCell import SpatiallyAdaptiveCellScheme
    from sparseSpACE.Grid import TrapezoidalGrid
    from sparseSpACE.GridOperation import Integration
    from sparseSpACE.ErrorCalculator import ErrorCalculatorSurplusCell
    a, b = np.array(cfg["a"], dtype=float), np.array(cfg["b"], dtype=float)
    grid = TrapezoidalGrid(a, b)
    op = Integration(f, grid, cfg["d"], reference_solution=reference, print_level=100, log_level=100)
    cls = hooks.observed(SpatiallyAdaptiveCellScheme)
    c = cls(a, b, operation=op, norm=norm)
    c.log_util.set_print_level(100)
    c.log_util.set_log_level(100)
    c.vobs = obs
    return c, ErrorCalculatorSurplusCell()


def gen_cfg(rng, strategy, tier):
    if strategy == "dimwise":
        cfg = dimwise.gen_config(rng, tier, dims=(1, 2, 2, 3), box_kinds=["unit", "unit", "shifted", "dyadic"])
        cfg["profile"] = rng.choice(["real", "real", "real_punished", "uniform", "sparse", "ties", "single"])
        if cfg["d"] == 3 and cfg["lmax"] > 3:
            cfg["lmin"], cfg["lmax"] = 1, 2
    elif strategy == "extsplit":
        cfg = extsplit.gen_config(rng, tier, versions=(0, 0, 1, 2), dims=(2, 2, 3), boundary_choices=(True,))
        cfg["profile"] = rng.choice(["real", "real", "uniform", "sparse", "ties"])
        kind, cfg["a"], cfg["b"] = hooks.gen_box(rng, cfg["d"], ["unit", "unit", "shifted", "dyadic"])
    else:
        d = rng.choice([2, 2, 3])
        lv = rng.choice([1, 2, 2]) if d == 2 else rng.choice([1, 2])
        kind, a, b = "unit", [0.0] * d, [1.0] * d   # the cell strategy computes parent cells from start*2^level: unit cube only
        cfg = {"d": d, "lmin": lv, "lmax": lv, "a": a, "b": b, "box": kind, "profile": "real", "errseed": 0}
    return cfg


def p_norm(v, p):
    v = np.abs(np.asarray(v, dtype=float))
    if p == np.inf or p == "inf":
        return float(np.max(v))
    return float(np.sum(v ** p) ** (1.0 / p))


def run_once(strategy, cfg, comps, reference, norm, tol, min_ev, max_ev, prior=None):
    f = hooks.VFunction(comps)
    obs = Rec(f)
    c, err = build(strategy, cfg, f, obs, reference, norm)
    if prior is not None:
        # the same strategy object (operation, function cache, grids) already served an earlier run with other limits
        c.vobs = None
        with contextlib.redirect_stdout(io.StringIO()):
            c.performSpatiallyAdaptiv(cfg["lmin"], cfg["lmax"], err, tol=-1.0, max_evaluations=prior, do_plot=False, print_output=False)
        c.vobs = obs
        f.since_mark = None
        f.eval_points.clear()      # harness-side memo / counters start again for the observed run
    # the limits are numbers: python ints, floats or numpy scalars (the same values)
    lt = cfg.get("limit_types", 0)
    if lt == 1:
        max_ev, min_ev, tol = float(max_ev), float(min_ev), np.float64(tol)
    elif lt == 2:
        max_ev, min_ev, tol = np.int64(max_ev), np.int64(min_ev), (int(tol) if float(tol).is_integer() else tol)
    with contextlib.redirect_stdout(io.StringIO()):
        try:
            r = c.performSpatiallyAdaptiv(cfg["lmin"], cfg["lmax"], err, tol=tol, max_evaluations=max_ev, min_evaluations=min_ev,
                                          do_plot=False, print_output=False)
        except hooks.StopHistory:
            r = None
    return c, f, obs, r


def continued_segment(res, rng, c, f, obs, strategy, reference, norm, ctx, oscale):
    """The public continue_adaptive_refinement(tol, max_evaluations, min_evaluations) is a run of the same driver with its OWN limits:
    the stop rule is judged on the events of the second segment with the limits of the second call."""
    if rng.random() >= 0.4:
        return 0
    n1 = len(obs.events)
    ev1 = [e for e in obs.events if e[0] == "EVAL"]
    if not ev1:
        return 0
    last_err, last_pts = float(ev1[-1][1]), int(ev1[-1][3])
    errs = sorted(set(float(e[1]) for e in ev1 if float(e[1]) > 0))
    mode = rng.choice(["tighter", "looser", "more_points", "already_met", "min_only"])
    tol2, min2, max2 = -1.0, 1, last_pts + rng.choice([0, 10, 60, 150])
    if mode == "tighter":
        tol2 = last_err * rng.choice([0.5, 0.1, 0.9]) if last_err > 0 else 0.0
    elif mode == "looser":
        tol2 = (errs[-1] * 2 if errs else 10.0)
    elif mode == "already_met":
        tol2, max2 = 1e300, last_pts + 100
    elif mode == "min_only":
        tol2, min2 = 1e300, last_pts + rng.choice([1, 20, 80])
    with contextlib.redirect_stdout(io.StringIO()):
        try:
            r2 = c.continue_adaptive_refinement(tol=tol2, max_evaluations=max2, min_evaluations=min2)
        except hooks.StopHistory:
            res.note("continued_segment_ended_by_harness_guard")
            return 0
    seg = obs.events[n1:]
    ev = [e for e in seg if e[0] == "EVAL"]
    n = len(ev)
    ctx2 = dict(ctx, second_call={"mode": mode, "tol": tol2, "min": min2, "max": max2}, segment_errors=[float(e[1]) for e in ev][:10],
                segment_points=[int(e[3]) for e in ev][:10])

    def stop(e):
        return (e[1] <= tol2 and e[3] >= min2) or (e[3] > max2)
    kinds = [e[0] for e in seg]
    ok_alt = bool(kinds) and kinds[0] == "EVAL" and kinds[-1] == "EVAL" and all(kinds[i] != kinds[i + 1] for i in range(len(kinds) - 1))
    res.check("continued_event_order", ok_alt, "C13_continued_event_order", "continued run: events are not EVAL (REFINE EVAL)*: %s" % kinds[:20], ctx2)
    if n:
        res.check("continued_stop_rule_last", stop(ev[-1]), "C13_continued_stopped_without_condition",
                  "continue_adaptive_refinement(tol=%g, min=%d, max=%d) returned after %d evaluations although neither stop condition of THIS call "
                  "holds (error %s, points %s)" % (tol2, min2, max2, n, ev[-1][1], ev[-1][3]), ctx2)
        early = [i for i in range(n - 1) if stop(ev[i])]
        res.check("continued_stop_rule_not_before", not early, "C13_continued_refined_after_stop_condition",
                  "continue_adaptive_refinement(tol=%g, min=%d, max=%d): the stop condition of this call already held at its evaluation(s) %s "
                  "of %d but it refined further" % (tol2, min2, max2, early[:4], n), ctx2)
        pts_all = [int(e[3]) for e in obs.events if e[0] == "EVAL"]
        res.check("points_monotone", all(pts_all[i] <= pts_all[i + 1] for i in range(len(pts_all) - 1)), "C13_points_decrease",
                  "point counts decrease over the continued run: %s" % pts_all[-20:], ctx2)
        res.check("arrays_match_events", np.array_equal(np.asarray(r2[3], dtype=float), ev[-1][5]), "C13_result_differs_from_last_evaluation",
                  "continued run: returned result differs from the result at the last evaluation", ctx2)
        res.check("array_lengths", len(r2[5]) == len(r2[6]) == len(r2[7]), "C13_array_lengths",
                  "continued run: history arrays have different lengths %d/%d/%d" % (len(r2[5]), len(r2[6]), len(r2[7])), ctx2)
        for i, e in enumerate(ev):
            total, since = e[4]
            res.check("point_count_is_distinct_evaluations", int(e[3]) == total, "C13_point_count:continued:" + strategy,
                      "continued run, evaluation %d reports %d points but %d distinct points reached the integrand" % (i, e[3], total), ctx2)
    res.count("continued_segments")
    return n


def run_case(case, res):
    rng = random.Random(case["seed"])
    tier = case.get("tier", "quick")
    strategy = rng.choice(STRATS)
    cfg = gen_cfg(rng, strategy, tier)
    d = cfg["d"]
    nout = rng.choice([1, 1, 2, 3])
    comps = make_integrand(rng, d, nout, case["seed"])
    oscale = rng.choice([1.0, 1.0, 1e-9, 1e-4, 1e3])
    if oscale != 1.0:
        comps = [(lambda g: (lambda p: oscale * g(p)))(g) for g in comps]
    norm = rng.choice([1, 2, np.inf])
    tol = rng.choice([-1.0, 0.0, 1e-6, 1e-3, 1e-2, 10.0])
    min_ev = rng.choice([1, 1, 40, 10 ** 4])
    max_ev = rng.choice([0, 1, 30, 200, 200, 600 if d <= 2 else 200])
    refkind = rng.choice(["none", "zero", "random", "near", "near"])
    res.sample = {"config": cfg, "strategy": strategy}
    reference = None
    if refkind == "zero":
        reference = np.zeros(nout)
    elif refkind == "random":
        reference = np.array([oscale * rng.choice([-1, 1]) * rng.uniform(0.5, 3) for _ in range(nout)])
    elif refkind == "near":
        # first pass: converged-ish value with the same configuration and a moderate budget
        _, _, _, r0 = run_once(strategy, cfg, comps, None, norm, -1.0, 1, 150 if d <= 2 else 120)
        if r0 is not None and rng.random() < 0.5 and len(r0[6]) >= 2:
            # limits that TIE with an attained point count (>= for the minimum, > for the maximum)
            cnt = int(rng.choice(list(r0[6])))
            if rng.random() < 0.6:
                min_ev, tol = cnt, max(tol, 1e-2)
            else:
                max_ev = cnt
        if r0 is None:
            res.note("ended_by_harness_guard(livelock or depth cap):" + strategy)
            res.hash = digest(["livelock", case["seed"]])
            return
        base = np.array(r0[3], dtype=float)
        if np.all(np.abs(base) > 1e-12):
            reference = base * (1.0 + rng.choice([1e-3, -2e-3, 1e-5]))
        else:
            reference = np.array([oscale * rng.uniform(0.5, 3) for _ in range(nout)])
            refkind = "random"
    prior = None
    if strategy != "cell" and rng.random() < 0.2:
        prior = rng.choice([1, 40, 90])
        res.count("second_run_on_same_object")
    cfg["limit_types"] = rng.choice([0, 0, 0, 0, 1, 2])
    if cfg["limit_types"]:
        res.count("limits_given_as_float_or_numpy_scalars")
    c, f, obs, r = run_once(strategy, cfg, comps, reference, norm, tol, min_ev, max_ev, prior=prior)
    if r is None:
        res.note("ended_by_harness_guard(livelock or depth cap):" + strategy)
        res.hash = digest(["livelock", case["seed"]])
        return
    ev = [e for e in obs.events if e[0] == "EVAL"]
    n = len(ev)
    ctx = {"strategy": strategy, "output_scale": oscale, "tol": tol, "min": min_ev, "max": max_ev, "norm": str(norm), "reference": refkind, "nout": nout,
           "errors": [float(e[1]) for e in ev][:12], "points": [int(e[3]) for e in ev][:12], "cfg": cfg}

    def stop(e):
        return (e[1] <= tol and e[3] >= min_ev) or (e[3] > max_ev)
    # event structure
    kinds = [e[0] for e in obs.events]
    ok_alt = bool(kinds) and kinds[0] == "EVAL" and kinds[-1] == "EVAL" and all(kinds[i] != kinds[i + 1] for i in range(len(kinds) - 1))
    res.check("one_refine_between_evals", ok_alt, "C13_event_order", "events are not EVAL (REFINE EVAL)*: %s" % kinds[:20], ctx)
    if n:
        res.check("stop_rule_last", stop(ev[-1]), "C13_stopped_without_condition",
                  "run stopped after evaluation %d although neither stop condition holds (error %s, points %s)" % (n, ev[-1][1], ev[-1][3]), ctx)
        early = [i for i in range(n - 1) if stop(ev[i])]
        res.check("stop_rule_not_before", not early, "C13_refined_after_stop_condition",
                  "stop condition already held at evaluation(s) %s of %d but the run refined further" % (early[:4], n), ctx)
        if n == 1:
            res.count("stopped_at_first_evaluation")
        if ev[-1][3] > max_ev:
            res.count("stopped_by_max")
        elif n >= 2:
            res.count("stopped_by_tolerance_midrun")
    # returned arrays
    result, evaluations, error_array, num_point_array, surplus_array = r[3], r[4], r[5], r[6], r[7]
    res.check("array_lengths", len(error_array) == n and len(num_point_array) == n and len(surplus_array) == n,
              "C13_array_lengths", "history arrays have lengths %d/%d/%d for %d evaluations" % (
                  len(error_array), len(num_point_array), len(surplus_array), n), ctx)
    if len(error_array) == n == len(num_point_array) == len(surplus_array):
        same = all(float(error_array[i]) == float(ev[i][1]) and int(num_point_array[i]) == int(ev[i][3])
                   and float(surplus_array[i]) == float(ev[i][2]) for i in range(n))
        res.check("arrays_match_events", same, "C13_arrays_differ_from_events",
                  "returned history arrays differ from the values observed at the evaluations", ctx)
    res.check("arrays_match_events", np.array_equal(np.asarray(result, dtype=float), ev[-1][5]) if n else False,
              "C13_result_differs_from_last_evaluation", "returned result differs from the result at the last evaluation", ctx)
    pts = [int(x) for x in num_point_array]
    res.check("points_monotone", all(pts[i] <= pts[i + 1] for i in range(len(pts) - 1)), "C13_points_decrease",
              "point counts decrease: %s" % pts[:20], ctx)
    vals = [float(x) for x in error_array] + [float(x) for x in surplus_array]
    okv = all(math.isfinite(v) and v >= 0 for v in vals)
    okb = all(math.isfinite(x) and x >= 0 for e in ev for x in e[6]) and all(math.isfinite(x) and x >= 0 for e in ev for x in e[7])
    res.check("nonnegative_finite", okv and okb, "C13_negative_or_nonfinite:" + ("estimate" if not okv else "benefit"),
              "an error estimate or benefit is negative or not finite", ctx)
    # error formula
    if reference is not None:
        for i, e in enumerate(ev):
            resu = e[5]
            if np.linalg.norm(reference) == 0.0:
                dev = np.abs(resu)
            else:
                dev = np.abs((reference - resu) / reference)
            plain = p_norm(dev, norm)
            normalised = plain / (len(resu) ** (1.0 / norm)) if norm != np.inf else plain
            okf = any(abs(float(e[1]) - x) <= 1e-12 * max(1.0, abs(x)) for x in (plain, normalised))
            res.check("error_formula", okf, "C13_error_formula",
                      "reported error %.17g at evaluation %d is neither %.17g (p-norm) nor %.17g (length-normalised)" % (
                          float(e[1]), i, plain, normalised), ctx)
    else:
        res.check("error_without_reference_is_surplus", all(float(e[1]) == float(e[2]) for e in ev), "C13_error_without_reference",
                  "without reference the error should be the total surplus error", ctx)
    # point count == distinct integrand evaluations
    for i, e in enumerate(ev):
        total, since = e[4]
        sig = "C13_point_count:" + strategy
        if int(e[3]) != total and int(e[3]) == since:
            sig = "C13_point_count:evaluations_before_dictionary_reset_not_counted"
        res.check("point_count_is_distinct_evaluations", int(e[3]) == total, sig,
                  "evaluation %d reports %d points but %d distinct points reached the integrand (%d of them since the first "
                  "evaluation started, %d during initialisation)" % (i, e[3], total, since, obs.pre_init), ctx)
    n2 = continued_segment(res, rng, c, f, obs, strategy, reference, norm, ctx, oscale) if strategy != "cell" else 0
    res.hash = digest([strategy, tol, min_ev, max_ev, str(norm), refkind, n, pts[:6], n2])
    res.nontrivial = n >= 2 or (n == 1)
    res.states.add(digest([strategy, n]))
    res.sample = dict(ctx, n_evaluations=n, events=kinds[:12])
    res.note("evaluations_field_equals_last_point_count" if n and int(evaluations) == pts[-1] else "evaluations_field_differs")

RULE += (" " + 'Limits are passed as python ints, floats and numpy scalars.')
