"""C02 — standard combination equals the sparse-grid interpolant."""
import contextlib
import io
import itertools
import random

import numpy as np

from vlib import hooks
from vlib import refmodels as rm
from vlib.common import case_seed, digest

RULE = ("generated (d=1..4, 1<=lmin<=lmax, lmax-lmin<=4, box kind in unit/shifted/negative/anisotropic/tiny/huge/dyadic, "
        "boundary on/off) configurations of the real StandardCombi+Integration+TrapezoidalGrid; integrand = vector function "
        "[hash-valued arbitrary function, nodal hats of component grids whose level lies in the index set (all for small "
        "configurations, <=32 sampled otherwise), 4 random combinations]. plus object-reuse histories: the same StandardCombi object is first run on other levels and read through its read-only helpers (print_subspaces / print_resulting_combi_scheme / print_resulting_sparsegrid / plot / get_total_num_points / __call__ / get_points_and_weights / check_combi_scheme) before the observed perform_operation. distinct = (d,lmin,lmax,boundary,box digest); "
        "non-trivial = lmax>lmin and d>=2")
RULE += (" A further generator builds a MixedGrid of 1-D trapezoidal grids with per-dimension boundary flags (point, count, coefficient and integration clauses only).")
RULE += (" The domain, evaluation points and tensor-grid axes are also handed over as lists, tuples, python ints and integer-typed arrays (integer boxes).")
REQUIRED = ["bitwise_nested", "scheme_coefficients", "points_on_dyadic_grid", "union_is_sparse_grid", "coefficient_sum_per_point",
            "reported_count_matches_points", "nodal_reproduction_call", "nodal_reproduction_grid", "hat_integral_exact",
            "hat_interpolation_exact"]
MIN_NONTRIVIAL = {"quick": 60, "thorough": 600}
CHUNK = {"quick": 10, "thorough": 40}
ASSUMPTIONS = ["d<=4, lmax<=6 (d<=2), <=5 (d=3), <=4 (d=4)", "hierarchical levels below lmin are only observed, not judged"]


def cases(tier, seed):
    n = 260 if tier == "quick" else 4000
    m = 120 if tier == "quick" else 1500
    k = 80 if tier == "quick" else 1000
    return [{"gen": "mixed", "seed": case_seed(seed, "C02", "mixed", i), "tier": tier} for i in range(k)] + \
           [{"gen": "config", "seed": case_seed(seed, "C02", "config", i), "tier": tier} for i in range(n)] + \
           [{"gen": "reuse", "seed": case_seed(seed, "C02", "reuse", i), "tier": tier} for i in range(m)]


def gen(rng):
    d = rng.choice([1, 2, 2, 2, 3, 3, 4])
    cap = {1: 7, 2: 6, 3: 5, 4: 4}[d]
    lmin = rng.choice([1, 1, 2, 2, 3])
    lmin = min(lmin, cap - 1)
    lmax = min(cap, lmin + rng.choice([0, 1, 1, 2, 2, 3, 4]))
    kind, a, b = hooks.gen_box(rng, d, ["unit", "unit", "shifted", "negative", "aniso", "tiny", "huge", "dyadic", "integer", "mixed_scales"])
    if rng.random() < 0.12:
        kind, a, b = hooks.gen_box(rng, d, ["integer"])
        if d >= 2 and rng.random() < 0.6:
            # one long and one short edge: some tensor-grid axes consist of whole numbers only, others do not
            k0, k1 = rng.sample(range(d), 2)
            b[k0], b[k1] = a[k0] + 8.0, a[k1] + 1.0
    mode = rng.choice(hooks.INPUT_MODES) if (kind == "integer" or rng.random() < 0.15) else "float_array"
    return {"d": d, "lmin": lmin, "lmax": lmax, "a": a, "b": b, "box": kind, "boundary": rng.random() < 0.5, "input_mode": mode}


def prelude(rng, combi, cfg, res):
    """The same object is first used with other levels and read through its read-only helpers (plots, point queries,
    interpolation); the final perform_operation(lmin, lmax) must still produce the scheme of (lmin, lmax)."""
    import matplotlib
    matplotlib.use("Agg")
    import matplotlib.pyplot as plt
    d = cfg["d"]
    cap = {1: 6, 2: 5, 3: 4, 4: 3}[d]
    for _ in range(rng.choice([1, 1, 2])):
        l0 = rng.randint(1, cap - 1)
        l1 = min(cap, l0 + rng.choice([0, 1, 2]))
        combi.perform_operation(l0, l1)
        helpers = rng.sample(["subspaces", "subspaces", "scheme", "sparsegrid", "num_points", "call", "points_weights", "check", "plot"],
                             rng.randint(1, 4))
        for h in helpers:
            res.count("prelude_" + h)
            with contextlib.redirect_stdout(io.StringIO()):
                if h == "subspaces" and d == 2:
                    combi.print_subspaces(sparse_grid_spaces=rng.random() < 0.8)
                elif h == "scheme" and d in (2, 3):
                    combi.print_resulting_combi_scheme()
                elif h == "sparsegrid" and d in (2, 3):
                    combi.print_resulting_sparsegrid(show_fig=False)
                elif h == "num_points":
                    combi.get_total_num_points()
                    combi.get_total_num_points(doNaive=True)
                elif h == "call":
                    combi([tuple(float(cfg["a"][k] + rng.random() * (cfg["b"][k] - cfg["a"][k])) for k in range(d))])
                elif h == "points_weights":
                    combi.get_points_and_weights()
                elif h == "check":
                    combi.check_combi_scheme()
                elif h == "plot" and d == 2:
                    combi.plot()
            plt.close("all")


def run_case(case, res):
    from sparseSpACE.StandardCombi import StandardCombi
    from sparseSpACE.Grid import TrapezoidalGrid
    from sparseSpACE.GridOperation import Integration
    rng = random.Random(case["seed"])
    cfg = gen(rng)
    d, lmin, lmax, boundary = cfg["d"], cfg["lmin"], cfg["lmax"], cfg["boundary"]
    mixed = case["gen"] == "mixed" and d >= 2
    if mixed:
        # MixedGrid of 1-D trapezoidal grids with PER-DIMENSION boundary flags (at least one on, one off)
        bfl = [rng.random() < 0.5 for _ in range(d)]
        bfl[0], bfl[1] = (True, False) if rng.random() < 0.5 else (False, True)
        cfg["boundary_per_dim"] = bfl
    else:
        bfl = [boundary] * d
    a, b = np.array(cfg["a"]), np.array(cfg["b"])
    width = b - a
    mode = cfg["input_mode"]
    # what the library is given: the same numbers as float arrays (default), lists, tuples, python ints or integer-typed arrays
    A, B = hooks.typed(cfg["a"], mode), hooks.typed(cfg["b"], mode)
    if mode != "float_array":
        res.count("domain_given_as_" + mode)
    I = rm.standard_index_set(d, lmin, lmax)
    # hat components
    all_hats = []
    for l in sorted(I):
        rngs = [range(0 if bfl[k] else 1, 2 ** lk + (1 if bfl[k] else 0)) for k, lk in enumerate(l)]
        n = 1
        for r_ in rngs:
            n *= len(r_)
        if n <= 200:
            all_hats.extend((l, idx) for idx in itertools.product(*rngs))
        else:
            for _ in range(6):
                all_hats.append((l, tuple(rng.choice(list(r_)) for r_ in rngs)))
    cap = 48 if case.get("tier") == "thorough" else 32
    hats = all_hats if len(all_hats) <= cap else rng.sample(all_hats, cap)
    comps = [hooks.comp_hash(case["seed"])]
    exact_int = [None]
    for l, idx in hats:
        comps.append(hooks.comp_hat_product(l, idx, cfg["a"], cfg["b"]))
        exact_int.append(hooks.hat_product_integral(l, idx, cfg["a"], cfg["b"]))
    combos = []
    for _ in range(4):
        w = [rng.uniform(-2, 2) for _ in hats]
        combos.append(w)
        base = comps[1:1 + len(hats)]
        comps.append((lambda ww, bs: (lambda p: sum(wi * g(p) for wi, g in zip(ww, bs))))(w, base))
        exact_int.append(sum(wi * e for wi, e in zip(w, exact_int[1:1 + len(hats)])))
    f = hooks.VFunction(comps)
    if mixed:
        from sparseSpACE.Grid import MixedGrid, TrapezoidalGrid1D
        grid = MixedGrid(a=a, b=b, grids=[TrapezoidalGrid1D(a=a[k], b=b[k], boundary=bfl[k]) for k in range(d)])
        res.count("mixed_boundary_flags")
    else:
        grid = TrapezoidalGrid(a=A, b=B, boundary=boundary)
    op = Integration(f=f, grid=grid, dim=d, print_level=100, log_level=100)
    combi = StandardCombi(A, B, operation=op, print_output=False, log_level=100, print_level=100)
    if case["gen"] == "reuse":
        prelude(rng, combi, cfg, res)
    scheme, err, result = combi.perform_operation(lmin, lmax)
    sm = [(tuple(int(x) for x in g.levelvector), g.coefficient) for g in scheme]

    # (i) coefficients
    cp = rm.coefficient_problems(I, sm, lmin, d)
    res.check("scheme_coefficients", not cp, "standard_scheme_coefficients:" + (cp[0][0] if cp else ""),
              "standard scheme is not the inclusion-exclusion scheme of the truncated index set: %s" % cp[:3], {"scheme": sm})
    # (ii)-(iv) points
    finest = lmax
    total = {}
    floats = {}
    for l, coef in sm:
        pts = combi.get_points_component_grid(list(l))
        npts = combi.get_num_points_component_grid(list(l), False)
        exp_n = 1
        for _kk, lk in enumerate(l):
            exp_n *= 2 ** lk + (1 if bfl[_kk] else -1)
        res.check("reported_count_matches_points", int(npts) == len(pts) == exp_n, "standard_point_count",
                  "grid %s reports %s points, returns %d, expected %d" % (l, npts, len(pts), exp_n))
        idxs = set()
        okgrid = True
        for p in pts:
            t = (np.array(p, dtype=float) - a) / width * 2 ** finest
            r = np.rint(t)
            if np.max(np.abs(t - r)) > 1e-9 * 2 ** finest:
                okgrid = False
            ii = tuple(int(x) for x in r)
            idxs.add(ii)
            floats.setdefault(ii, set()).add(tuple(float(x) for x in p))
        exp_idx = set(itertools.product(*[rm.dyadic_component_indices(lk, finest, bfl[_kk]) for _kk, lk in enumerate(l)]))
        res.check("points_on_dyadic_grid", okgrid and idxs == exp_idx, "standard_component_points_wrong",
                  "points of component grid %s are not the dyadic tensor grid of that level" % (l,),
                  {"extra": sorted(idxs - exp_idx)[:5], "missing": sorted(exp_idx - idxs)[:5]})
        for i in idxs:
            total[i] = total.get(i, 0) + coef
    sg = rm.sparse_grid_indices(I, finest, bfl)
    res.check("union_is_sparse_grid", set(total) == sg, "standard_union_not_sparse_grid",
              "union of the component grid points differs from the sparse grid (%d vs %d points)" % (len(total), len(sg)),
              {"extra": sorted(set(total) - sg)[:5], "missing": sorted(sg - set(total))[:5]})
    bad = [(i, v) for i, v in total.items() if v != 1]
    res.check("coefficient_sum_per_point", not bad, "standard_point_coefficient_sum",
              "%d sparse grid points have coefficients not summing to 1" % len(bad), {"examples": bad[:5]})
    multi = [(i, sorted(v)) for i, v in floats.items() if len(v) != 1]
    res.check("bitwise_nested", not multi, "standard_nested_points_not_bitwise_equal",
              "%d sparse grid points carry different floating-point coordinates in different component grids" % len(multi),
              {"examples": multi[:3], "cfg": cfg})
    # (v) nodal reproduction of the arbitrary component, point-wise and on a tensor grid
    sgl = sorted(sg)
    if len(sgl) > 1200:
        sgl = rng.sample(sgl, 1200)
    P = [tuple(float(a[k] + i[k] * width[k] / 2 ** finest) for k in range(d)) for i in sgl]
    # use the library's own coordinates for exactness: linspace(a,b,2^finest+1)
    axes = [np.linspace(a[k], b[k], 2 ** finest + 1) for k in range(d)]
    P = [sorted(floats[i])[0] if i in floats else tuple(float(axes[k][i[k]]) for k in range(d)) for i in sgl]
    nsch = sum(abs(c_) for _, c_ in sm)
    cond = max(max(abs(a[k]), abs(b[k])) / (width[k] / 2 ** finest) for k in range(d))
    itol = (1e-12 + 4e-16 * cond)
    if P and not mixed:   # interpolation on mixed-boundary grids is outside the sparse-grid interpolant (zero / non-zero boundary mix)
        if len(P) >= 2 and rng.random() < 0.4:
            # an evaluation list may contain a point several times
            P = P + [P[rng.randrange(len(P))] for _ in range(rng.randint(1, 5))]
            res.count("evaluation_list_with_repeated_points")
        Pg = P
        if mode in ("int_list", "int_tuple", "int_array"):
            Pg = [tuple(int(x) if float(x).is_integer() else x for x in p) for p in P]
        vals = np.asarray(combi(Pg))
        exp = np.array([f.eval(p) for p in P])
        scale = max(1.0, float(np.max(np.abs(exp)))) * nsch
        res.close("nodal_reproduction_call", vals[:, 0], exp[:, 0], 10 * itol * scale, "standard_not_nodal_call",
                  "combi(points) differs from the function at sparse grid points", {"cfg": cfg})
    # tensor grid interpolation: coordinates of a coarse tensor grid whose entries are all sparse grid points
    # (levels (lmin,...,lmin) full grid is contained in every sparse grid) plus comparison to combi(points) elsewhere
    tl = [lmin] * d
    tcoords = [list(axes[k][rm.dyadic_component_indices(lmin, finest, bfl[k])]) for k in range(d)]
    if all(len(t) > 0 for t in tcoords) and not mixed:
        tgiven = tcoords
        if mode != "float_array":
            # per axis: whole-number coordinates as python ints / an integer array, the others as floats (list, tuple or array)
            tgiven = [hooks.typed(t, mode) for t in tcoords]
            res.count("interpolate_grid_axes_typed")
        tv = np.asarray(combi.interpolate_grid(tgiven))
        tp = list(itertools.product(*tcoords))
        exp = np.array([f.eval(tuple(float(x) for x in p)) for p in tp])
        scale = max(1.0, float(np.max(np.abs(exp)))) * nsch
        res.close("nodal_reproduction_grid", tv[:, 0], exp[:, 0], 10 * itol * scale, "standard_not_nodal_grid",
                  "interpolate_grid differs from the function at sparse grid points", {"cfg": cfg})
        res.close("hat_interpolation_grid", tv[:, 1:], exp[:, 1:], itol * nsch * 70, "standard_hat_interp_grid",
                  "interpolate_grid is not exact for functions of the sparse grid space", {"cfg": cfg})
    # (vi) exactness on the space
    vol = float(np.prod(width))
    wsum = np.array([1.0] * len(hats) + [max(1.0, sum(abs(x) for x in w)) for w in combos])
    res.close("hat_integral_exact", np.asarray(result)[1:], np.array(exact_int[1:]), itol * nsch * vol * wsum,
              "standard_hat_integral", "combined integral of functions of the sparse grid space is not exact",
              {"cfg": cfg, "n_hats": len(hats)})
    R = [tuple(float(a[k] + rng.random() * width[k]) for k in range(d)) for _ in range(64)]
    R += [tuple(float(axes[k][rng.randrange(len(axes[k]))]) for k in range(d)) for _ in range(16)]
    if not mixed:
        vals = np.asarray(combi(R))
        exp = np.array([f.eval(p) for p in R])
        res.close("hat_interpolation_exact", vals[:, 1:], exp[:, 1:], itol * nsch * wsum[None, :], "standard_hat_interpolation",
                  "combi(x) is not exact for functions of the sparse grid space at random points", {"cfg": cfg})
    # get_points_and_weights: union equals the sparse grid as well
    pw, ww = combi.get_points_and_weights()
    idxs = set()
    for p in pw:
        t = np.rint((np.array(p, dtype=float) - a) / width * 2 ** finest)
        idxs.add(tuple(int(x) for x in t))
    res.check("points_and_weights_union", idxs == sg and len(pw) == len(ww), "standard_points_weights_union",
              "points of get_points_and_weights() are not the sparse grid")
    res.hash = digest([d, lmin, lmax, bfl, cfg["a"], cfg["b"]])
    res.nontrivial = lmax > lmin and d >= 2
    res.states.add(digest([d, lmin, lmax, bfl]))
    res.sample = {"config": cfg, "n_component_grids": len(sm), "sparse_grid_points": len(sg), "hat_components": len(hats),
                  "scheme": sm[:8]}
