#!/bin/sh
# usage: tools/trypatch.sh <patch> <prop> [tier] [seed]   -- runs the check of <prop> against a scratch worktree of /repo HEAD + patch
PATCH=$(readlink -f $1); PROP=$2; TIER=${3:-quick}; SEED=${4:-0}
HERE="$(cd "$(dirname "$0")/.." && pwd)"
ROOT=$(mktemp -d /tmp/vp_try_XXXXXX); WT=$ROOT/repo
git -C /repo worktree add -q --detach $WT HEAD || exit 2
trap 'git -C /repo worktree remove --force $WT >/dev/null 2>&1; rm -rf $ROOT; git -C /repo worktree prune' EXIT
git -C $WT apply --whitespace=nowarn $PATCH || { echo "PATCH DOES NOT APPLY"; exit 3; }
cd $HERE && VERIF_REPO=$WT VERIF_EVIDENCE=$ROOT/ev.json ./check $PROP --tier $TIER --seed $SEED --no-evidence 2>&1 | grep -o "sig=.*\|verdict=.*\|INCONC.*" | cut -c1-300
