#!/venv/bin/python
"""Applies property-breaking patches to a scratch worktree of /repo and checks that the owning quick check fires.

usage: tools/selftest.py [--seeded] [--mutants] [--only SUBSTR] [--tier quick] [--keep-going]
  seeded  : /verif/seeded/<id>/patch.diff + meta.json {"property": "Cxx", ...}
  mutants : /verif/selftest/mutants/<Cxx>__<name>.patch
Writes /verif/selftest/results.json.  Scratch worktrees live under $TMPDIR and are removed after each patch.
"""
import argparse
import glob
import json
import os
import re
import shutil
import subprocess
import sys
import tempfile
import time

HERE = os.path.dirname(os.path.dirname(os.path.abspath(__file__)))
REPO = "/repo"


def collect(args):
    items = []
    if args.seeded:
        for d in sorted(glob.glob(os.path.join(HERE, "seeded", "*"))):
            pf = os.path.join(d, "patch.diff")
            mf = os.path.join(d, "meta.json")
            if os.path.exists(pf) and os.path.exists(mf):
                meta = json.load(open(mf))
                if args.round and str(meta.get("round", "")) not in args.round.split(","):
                    continue
                items.append({"name": "seeded/" + os.path.basename(d), "patch": pf, "property": meta["property"],
                              "also": meta.get("also_checked_by", [])})
    if args.mutants:
        for pf in sorted(glob.glob(os.path.join(HERE, "selftest", "mutants", "*.patch"))):
            m = re.match(r"(C\d+)__", os.path.basename(pf))
            if m:
                items.append({"name": "mutants/" + os.path.basename(pf)[:-6], "patch": pf, "property": m.group(1), "also": []})
    if args.only:
        items = [i for i in items if args.only in i["name"] or args.only == i["property"]]
    return items


def run_one(item, tier, extra_props=()):
    root = tempfile.mkdtemp(prefix="vp_selftest_")
    wt = os.path.join(root, "repo")
    out = {"name": item["name"], "property": item["property"]}
    try:
        subprocess.run(["git", "-C", REPO, "worktree", "add", "-q", "--detach", wt, "HEAD"], check=True,
                       stdout=subprocess.DEVNULL, stderr=subprocess.PIPE)
        ap = subprocess.run(["git", "-C", wt, "apply", "--whitespace=nowarn", item["patch"]], stderr=subprocess.PIPE)
        if ap.returncode != 0:
            out["status"] = "patch_does_not_apply"
            out["detail"] = ap.stderr.decode()[-300:]
            return out
        imp = subprocess.run(["/venv/bin/python", "-c", "import sparseSpACE, sparseSpACE.StandardCombi, sparseSpACE.DEMachineLearning"],
                             cwd=root, env=dict(os.environ, PYTHONPATH=wt, MPLBACKEND="Agg"), stderr=subprocess.PIPE, stdout=subprocess.DEVNULL)
        if imp.returncode != 0:
            out["status"] = "does_not_import"
            out["detail"] = imp.stderr.decode()[-300:]
            return out
        results = {}
        for prop in [item["property"]] + [p for p in extra_props if p != item["property"]]:
            t0 = time.time()
            p = subprocess.run([os.path.join(HERE, "check"), prop, "--tier", tier, "--no-evidence"], cwd=HERE,
                               env=dict(os.environ, VERIF_REPO=wt), stdout=subprocess.PIPE, stderr=subprocess.STDOUT)
            txt = p.stdout.decode(errors="replace")
            sigs = re.findall(r"sig=(\S+) occurrences=(\d+)", txt)
            results[prop] = {"rc": p.returncode, "sigs": sigs[:8], "wall": round(time.time() - t0, 1)}
        out["checks"] = results
        own = results[item["property"]]
        out["status"] = "caught" if own["rc"] == 1 else ("inconclusive" if own["rc"] == 2 else "MISSED")
        return out
    finally:
        subprocess.run(["git", "-C", REPO, "worktree", "remove", "--force", wt], stdout=subprocess.DEVNULL, stderr=subprocess.DEVNULL)
        shutil.rmtree(root, ignore_errors=True)
        subprocess.run(["git", "-C", REPO, "worktree", "prune"], stdout=subprocess.DEVNULL, stderr=subprocess.DEVNULL)


def main():
    ap = argparse.ArgumentParser()
    ap.add_argument("--seeded", action="store_true")
    ap.add_argument("--mutants", action="store_true")
    ap.add_argument("--only", default=None)
    ap.add_argument("--tier", default="quick")
    ap.add_argument("--round", default="", help="comma separated seeded rounds (meta.json 'round') to restrict --seeded to")
    ap.add_argument("--also", default="", help="comma separated extra properties to run on every patch")
    a = ap.parse_args()
    if not (a.seeded or a.mutants):
        a.seeded = a.mutants = True
    items = collect(a)
    extra = [x for x in a.also.split(",") if x]
    res = []
    for it in items:
        r = run_one(it, a.tier, extra + list(it.get("also", [])))
        res.append(r)
        own = r.get("checks", {}).get(it["property"], {})
        print("%-8s %-55s %-12s %s" % (it["property"], it["name"], r["status"], " ".join(s for s, _ in own.get("sigs", [])[:3])), flush=True)
        with open(os.path.join(HERE, "selftest", "results.partial.json"), "w") as fh:
            json.dump(res, fh, indent=1)
    outp = os.path.join(HERE, "selftest", "results.json")
    os.makedirs(os.path.dirname(outp), exist_ok=True)
    prev = []
    if os.path.exists(outp):
        prev = [x for x in json.load(open(outp)) if x["name"] not in {r["name"] for r in res}]
    with open(outp, "w") as fh:
        json.dump(prev + res, fh, indent=1)
    missed = [r for r in res if r["status"] != "caught"]
    print("%d patches, %d caught, %d not caught" % (len(res), len(res) - len(missed), len(missed)))
    return 1 if missed else 0


if __name__ == "__main__":
    sys.exit(main())
