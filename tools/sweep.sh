#!/bin/sh
# usage: tools/sweep.sh "<seeds>" "<props>" [tier]   -- runs checks without touching evidence files, prints one line per run
cd "$(dirname "$0")/.." || exit 2
TIER=${3:-quick}
for s in $1; do for p in $2; do
  out=$(VERIF_SEED=$s ./check $p --tier $TIER --no-evidence 2>&1); rc=$?
  echo "seed=$s prop=$p tier=$TIER rc=$rc :: $(echo "$out" | grep -E "^$p tier" | cut -c1-120)"
  echo "$out" | grep -E "VIOLATION|INCONCLUSIVE|sig=" | cut -c1-300
done; done
