#!/usr/bin/env python3
"""Maps the line ranges named under `anchors` in properties.jsonl (pinned commit) to function qualnames.

The ranges refer to the tree as it was pinned (before any `fix:` commit); later commits shift lines, so reach evidence is
kept per *function*: every innermost function whose body overlaps an anchored range at the pinned commit is an anchored
function of that property.  Output: vlib/anchors.json  {property: [{"file":..., "qualname":..., "where":...}, ...]}.
usage: tools/mkanchors.py [base-commit]
"""
import ast
import json
import os
import re
import subprocess
import sys

HERE = os.path.dirname(os.path.dirname(os.path.abspath(__file__)))
BASE = sys.argv[1] if len(sys.argv) > 1 else "fb2f7ba"


def functions(src):
    """[(qualname, first line, last line)] of all functions (innermost granularity kept by the caller)."""
    out = []

    def walk(node, prefix):
        for ch in ast.iter_child_nodes(node):
            if isinstance(ch, (ast.FunctionDef, ast.AsyncFunctionDef)):
                q = prefix + ch.name
                out.append((q, ch.lineno, ch.end_lineno))
                walk(ch, q + ".")
            elif isinstance(ch, ast.ClassDef):
                walk(ch, prefix + ch.name + ".")
            else:
                walk(ch, prefix)
    walk(ast.parse(src), "")
    return out


def main():
    cache = {}
    res = {}
    for line in open(os.path.join(HERE, "properties.jsonl")):
        p = json.loads(line)
        items = []
        seen = set()
        for m in p["anchors"]["mechanism"] + p["anchors"]["state"]:
            for part in m["where"].split(";"):
                part = part.strip()
                mm = re.match(r"(sparseSpACE/\w+\.py):([\d,\-\s]+)", part)
                if not mm:
                    continue
                f = mm.group(1)
                if f not in cache:
                    src = subprocess.run(["git", "-C", "/repo", "show", "%s:%s" % (BASE, f)], stdout=subprocess.PIPE,
                                         check=True).stdout.decode()
                    cache[f] = functions(src)
                for rng in mm.group(2).split(","):
                    rng = rng.strip()
                    if not rng:
                        continue
                    lo, _, hi = rng.partition("-")
                    lo = int(lo)
                    hi = int(hi or lo)
                    over = [(q, a, b) for q, a, b in cache[f] if a <= hi and b >= lo]
                    # innermost: drop functions that strictly contain another overlapping function
                    inner = [x for x in over if not any(y is not x and x[1] <= y[1] and y[2] <= x[2] for y in over)]
                    for q, a, b in inner:
                        if (f, q) not in seen:
                            seen.add((f, q))
                            items.append({"file": f, "qualname": q, "where": m.get("name", "")[:80]})
        res[p["id"]] = items
    with open(os.path.join(HERE, "vlib", "anchors.json"), "w") as fh:
        json.dump({"base": BASE, "anchors": res}, fh, indent=1)
    for k, v in res.items():
        print(k, len(v))


if __name__ == "__main__":
    main()
