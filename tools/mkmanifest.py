#!/venv/bin/python
"""Regenerates MANIFEST.json from the table below; a property is claimed iff props/<id>.py exists."""
import json
import os

HERE = os.path.dirname(os.path.dirname(os.path.abspath(__file__)))

TEXT = {
    "C01": ("history + executable reference model; invariant at a hook (after every update request)",
            "Runtime monitor over thousands of seeded update histories on the real CombiScheme: after init and after every "
            "request the index-set invariants and the dominating-sum characterisation of the coefficients are evaluated on "
            "the whole box; small spaces are enumerated completely; closed form compared with the fresh adaptive scheme.",
            "4.C01"),
    "C02": ("reference-model monitor over generated configurations (dyadic sparse grid, hat basis)",
            "Runs the real StandardCombi on generated (d, lmin, lmax, box, boundary) and judges point sets, per-point "
            "coefficient sums, nodal reproduction of a hash-valued function and exactness on hierarchical hats against an "
            "independent dyadic sparse-grid model.", "4.C02"),
    "C03": ("invariant at a hook (after every refine()) under hostile seeded refinement decisions",
            "Observer subclass of the dimension-wise strategy judged after every refinement step of seeded hostile "
            "histories (random error estimator): sorted nested 1-D point sets, per-point coefficient sum exactly 1, nodal "
            "reproduction of a hash-valued function through __call__ and interpolate_grid; histories include earlier runs on the same "
            "object, restarts with refinement_container and the recalculate_frequently option.", "4.C03"),
    "C04": ("runtime monitor: exactness oracle at every evaluation of hostile refinement histories",
            "Basis functions of the initially-exact space are carried as extra output components through real adaptive "
            "runs; at every evaluation the combined integral and at the end the interpolant are compared with analytic "
            "values.", "4.C04"),
    "C05": ("differential twins + independent recomputation at every evaluation",
            "At every stop of real runs the reported value is compared with a coefficient-weighted recomputation from "
            "fresh grid objects, with evaluate_final_combi on a deep copy, with the reevaluate_at_end twin and with "
            "sum w_i f(p_i) over the exposed points and weights; extend-split histories include restarts with refinement_container, "
            "recalculate_frequently, high-order grids and per-dimension boundary flags.", "4.C05"),
    "C06": ("invariant at a hook (after every refine()) + selection-rule model",
            "Structural invariants of the per-dimension interval containers are asserted after every refine() of seeded "
            "hostile histories, and the set of split intervals is compared with the margin rule evaluated on a snapshot "
            "taken before the step.", "4.C06"),
    "C07": ("invariant at a hook (after every refine()) on the extend-split strategy",
            "Leaf boxes, point assignment, coarsening values and local coefficient sums are judged after every refinement "
            "step of real extend-split runs over all documented option combinations.", "4.C07"),
    "C08": ("reference-model monitor (exact polynomial integrals) over generated grids and sub-boxes",
            "Each local grid family is driven through setCurrentArea/get_points_and_weights/integrate on generated level "
            "vectors and sub-boxes; counts, containment, weight sums and polynomial exactness are judged against exact "
            "Legendre integrals.", "4.C08"),
    "C09": ("reference-model monitor over generated refinement trees",
            "Global 1-D rules are set on generated refinement-tree grids; weights are compared with exact integrals of "
            "the piecewise-linear nodal basis and polynomial exactness is asserted.", "4.C09"),
    "C10": ("runtime postcondition on hierarchisation + interpolation round trip",
            "Hierarchise-then-interpolate round trips on generated grids with hash-valued vector functions; collocation "
            "residual postcondition on the real hierarchisation; basis cardinality, derivative and integral oracles.", "4.C10"),
    "C11": ("reference-model monitor over generated dyadic refinement trees and all grid variants",
            "Romberg/extrapolation grids are set on generated dyadic trees for every variant; weight count, moments and "
            "polynomial exactness and the full-tree invariant are judged.", "4.C11"),
    "C12": ("history + twin (pristine instance) model; Gauss-Legendre reference integrals",
            "Generated evaluation histories over every built-in Function class are compared with a pristine twin's eval; "
            "analytic integrals are compared with an independent tensor Gauss-Legendre reference.", "4.C12"),
    "C13": ("offline checker over the recorded event list of each adaptive run",
            "Observers record EVAL/REFINE events of real adaptive runs over generated limits; the stop rule, array lengths, "
            "monotonicity, non-negativity, the error formula and the distinct-evaluation count are decided on the trace; "
            "continue_adaptive_refinement with other limits is judged as a call segment of its own.", "4.C13"),
    "C14": ("differential twins over every interruption point (stop / save / restore / continue)",
            "For each evaluation index of an uninterrupted run, an interrupted (and a saved+restored) twin is continued and "
            "its final structure, scheme, result and point count are compared with the uninterrupted run; chains of two "
            "interruptions, tolerance continuations, interpolation calls between stop and continue, idempotent second continuations.", "4.C14"),
    "C15": ("reference-model monitor on weighted grids + moment-transformation oracle on real UQ runs",
            "Weighted trapezoidal weights and midpoints are judged on generated trees and distributions; E/Var relations "
            "are asserted on real dimension-wise UQ runs with vector-valued models.", "4.C15"),
    "C16": ("reference-model monitor (Kronecker hat Gram matrix, mean-of-hats right-hand side)",
            "The real matrix/right-hand-side builders and solvers are compared with an independent Gram-matrix model on "
            "generated grids and data sets, incl. samples on grid lines and both size paths.", "4.C16"),
    "C17": ("differential twins (reuse on/off; small-grid/large-grid paths) under identical seeded histories",
            "Twin dimension-wise density-estimation runs that differ only in reuse_old_values are driven by the same seeded "
            "refinement decisions and compared at every evaluation; size-dependent paths compared on the same grid.", "4.C17"),
    "C18": ("history + executable model (multiset of labelled rows, scaling attributes)",
            "Generated DataSet operation histories are run on real objects next to a list-of-pairs model; multiset "
            "preservation, label attachment, scaling attributes, revert and refusal clauses are judged after every step.", "4.C18"),
    "C19": ("runtime monitor: arg-max oracle recomputed from the per-class estimators under an independent scaling",
            "Learned classifiers are driven through generated call sequences; assigned classes, removed samples, "
            "summary numbers and stability of earlier results are judged.", "4.C19"),
    "C20": ("reference-model monitor (hat design matrix, Kronecker gradient Gram, normal equations)",
            "Real Regression objects and matrix builders are compared with an independent model; normal-equation "
            "residuals of the returned surpluses and coefficient sums of every optimisation variant are asserted.", "4.C20"),
}

NOTE = ("Held = no violation on the executions of this run (counts in the evidence file); paths the generators do not "
        "drive are invisible. Trusted: numpy/scipy, the harness reference models in vlib/refmodels.py, calibrated "
        "tolerances in the property module.")


def main():
    checks = []
    na = []
    for pid in sorted(TEXT):
        tech, text, ref = TEXT[pid]
        if os.path.exists(os.path.join(HERE, "props", pid.lower() + ".py")):
            checks.append({
                "property_id": pid,
                "quick_cmd": "./check %s --tier quick" % pid,
                "thorough_cmd": "./check %s --tier thorough" % pid,
                "evidence_file": "/verif/evidence/%s.json" % pid,
                "replay_cmd_template": "./check %s --replay {path}" % pid,
                "engine": "runtime-monitor",
                "level_claimed": {"category": "exploration", "text": text, "design_ref": ref},
                "level_note": NOTE,
                "technique": "runtime monitoring: " + tech,
            })
        else:
            na.append({"property_id": pid, "reason": "monitor designed (DESIGN.md %s) but not built yet; runtime monitoring "
                                                     "applies, the check is simply not implemented at this commit" % ref})
    man = {
        "version": 1,
        "setup_cmd": "/venv/bin/pip install -q --no-index --find-links /opt/veriftools/wheels --target /verif/.deps icontract deal",
        "hooks": {
            "guard": "SPARSESPACE_VERIF",
            "enable": "SPARSESPACE_VERIF=1 is exported by vlib/runner.py to every worker; nothing is compiled, workers import /repo sources directly",
            "baseline_off_cmd": "cd /repo && env -u SPARSESPACE_VERIF /venv/bin/python -m pytest -ra -q -p no:cacheprovider --timeout=900 --continue-on-collection-errors",
            "source_commits": [],
            "add_only": True,
        },
        "engines": [{"name": "runtime-monitor", "path": "/verif/vlib", "serves_properties": [c["property_id"] for c in checks],
                     "kind_free_text": "seeded workload generators + monitors/oracles observing the real code in sharded worker processes"}],
        "checks": checks,
        "notes": "exit 0 held / 1 VIOLATION / 2 INCONCLUSIVE (deciding monitor not reached, shard timeout, harness error). "
                 "Generators deliberately include second-use histories (re-initialised / restarted / re-saved objects, reused grid, "
                 "operation, function and data objects, caller-owned arrays), ties and exact boundaries, non-default options, input types "
                 "(python ints, integer-typed arrays, lists / tuples, integer-valued functions), quiet histories without monitor queries "
                 "between user calls, a few large / high-dimensional cases; "
                 "179 independently seeded property-breaking changes (seeded/) and 53 own mutants are replayed by tools/selftest.py. "
                 "Every evidence file carries reach evidence (coverage.reach: executed lines of the functions anchored in properties.jsonl, sys.monitoring). "
                 "Known findings: /verif/known_findings.json.",
        "not_applicable": na,
    }
    with open(os.path.join(HERE, "MANIFEST.json"), "w") as fh:
        json.dump(man, fh, indent=1)
    print("claimed:", [c["property_id"] for c in checks])


if __name__ == "__main__":
    main()
