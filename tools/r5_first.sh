#!/bin/sh
# usage: tools/r5_first.sh <Cxx> [round dir]   -- first contact of freshly delivered changes a/b with the owning quick check
P=$1; R=${2:-/tmp/r7}
cd "$(dirname "$0")/.." || exit 2
for v in a b; do
  D=$R/$P/out/$v
  [ -f $D/patch.diff ] || { echo "$P-$v: no patch"; continue; }
  echo "##### $P-$v files: $(grep '^+++ ' $D/patch.diff | sed 's/+++ b\///' | tr '\n' ' ') hunks: $(grep -c '^@@' $D/patch.diff)"
  grep '^@@' $D/patch.diff | sed 's/^@@[^@]*@@//' | sort -u | head -5
  echo "  stored patches of $P touching the same functions:"
  for s in seeded/$P-*/patch.diff; do
    for fn in $(grep '^@@' $D/patch.diff | sed 's/^@@[^@]*@@ *//' | grep -o 'def [A-Za-z_0-9]*' | sort -u | sed 's/def //'); do
      grep -q "def $fn" $s && echo "     $s ($fn)"
    done
  done | sort -u
  tools/trypatch.sh $D/patch.diff $P quick 0 2>&1 | cut -c1-220 | tail -6
done
