#!/bin/sh
# usage: tools/verify_seed.sh <src dir with patch.diff demo.py NOTES.md> <seed id> <property> [skip-suite]
# Confirms in a scratch worktree: patch applies, demo fails with / passes without the change, the existing suite has no new
# failures; then stores /verif/seeded/<id>/.
SRC=$1; ID=$2; PROP=$3; SKIP=$4
HERE="$(cd "$(dirname "$0")/.." && pwd)"
export OMP_NUM_THREADS=1 OPENBLAS_NUM_THREADS=1 MKL_NUM_THREADS=1 NUMEXPR_NUM_THREADS=1
ROOT=$(mktemp -d /tmp/vp_seedverify_XXXXXX)
WT=$ROOT/repo
git -C /repo worktree add -q --detach $WT HEAD || exit 2
cleanup() { git -C /repo worktree remove --force $WT >/dev/null 2>&1; rm -rf $ROOT; git -C /repo worktree prune; }
trap cleanup EXIT
cd $WT
run_demo() { ( cd $ROOT && PYTHONPATH=$WT MPLBACKEND=Agg timeout 300 /venv/bin/python $SRC/demo.py >$ROOT/demo.$1.out 2>&1; echo $? ); }
RC0=$(run_demo clean)
git apply --whitespace=nowarn $SRC/patch.diff || { echo "$ID: PATCH DOES NOT APPLY"; exit 1; }
RC1=$(run_demo patched)
SUITE="skipped"
if [ -z "$SKIP" ]; then
  PYTHONPATH=$WT MPLBACKEND=Agg /venv/bin/python -m pytest -q -p no:cacheprovider --timeout=900 -ra test > $ROOT/suite.log 2>&1
  grep -E "^(FAILED|ERROR)" $ROOT/suite.log | sed 's/ - .*//' | sort > $ROOT/failed.txt
  NEW=$(comm -23 $ROOT/failed.txt $HERE/selftest/baseline_failed.txt | wc -l)
  SUITE="new_failures=$NEW ($(tail -1 $ROOT/suite.log))"
  [ "$NEW" != "0" ] && { echo "new failures:"; comm -23 $ROOT/failed.txt $HERE/selftest/baseline_failed.txt; grep -E "Timeout|timeout" $ROOT/suite.log | head -3; }
fi
git checkout -q -- .
RC2=$(run_demo restored)
echo "$ID prop=$PROP demo clean=$RC0 patched=$RC1 restored=$RC2 suite: $SUITE"
if [ "$RC0" = "0" ] && [ "$RC1" != "0" ] && [ "$RC2" = "0" ] && { [ -n "$SKIP" ] || [ "$NEW" = "0" ]; }; then
  mkdir -p $HERE/seeded/$ID
  cp $SRC/patch.diff $SRC/demo.py $HERE/seeded/$ID/
  cp $SRC/NOTES.md $HERE/seeded/$ID/NOTES.md 2>/dev/null
  tail -5 $ROOT/demo.patched.out > $HERE/seeded/$ID/demo_with_change.out
  cat > $HERE/seeded/$ID/meta.json <<EOM
{"property": "$PROP", "origin": "independent sub-agent given only the property text and a scratch worktree",
 "confirmed": {"demo_exit_unmodified": $RC0, "demo_exit_with_change": $RC1, "demo_exit_restored": $RC2, "existing_suite": "$SUITE"},
 "ran": "tools/verify_seed.sh (scratch worktree of /repo HEAD: git apply, demo.py with/without, full pytest suite compared with selftest/baseline_failed.txt)",
 "needs_to_manifest": "see NOTES.md"}
EOM
  echo "$ID: KEPT"
else
  echo "$ID: REJECTED"
fi
