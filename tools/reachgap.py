#!/usr/bin/env python3
"""Prints the source lines of the anchored functions of a property that a run never executed.
usage: VERIF_REACH_DUMP=/verif/scratch/reach ./check C06; tools/reachgap.py C06 [quick|thorough] [--all-functions FILE.py]"""
import json
import os
import sys
HERE = os.path.dirname(os.path.dirname(os.path.abspath(__file__)))
sys.path.insert(0, HERE)
from vlib.runner import executable_lines  # noqa: E402

prop = sys.argv[1]
tier = sys.argv[2] if len(sys.argv) > 2 and not sys.argv[2].startswith("--") else "quick"
reach = json.load(open(os.path.join(HERE, "scratch", "reach", "%s.%s.json" % (prop, tier))))
anchors = json.load(open(os.path.join(HERE, "vlib", "anchors.json")))["anchors"][prop]
repo = os.environ.get("VERIF_REPO", "/repo")
if "--all-functions" in sys.argv:
    f = sys.argv[sys.argv.index("--all-functions") + 1]
    anchors = [{"file": "sparseSpACE/" + f, "qualname": q} for q in executable_lines(os.path.join(repo, "sparseSpACE", f)) if "<" not in q]
src_cache = {}
for an in anchors:
    f = an["file"]
    rel = f.split("/", 1)[1]
    path = os.path.join(repo, f)
    if f not in src_cache:
        src_cache[f] = (open(path).read().split("\n"), executable_lines(path))
    src, ex = src_cache[f]
    q = an["qualname"]
    lines = set()
    for name, ls in ex.items():
        if name == q or name.startswith(q + ".<locals>"):
            lines |= ls
    miss = sorted(lines - set(reach.get(rel, [])))
    if not miss:
        continue
    print("=== %s:%s  executed %d of %d" % (rel, q, len(lines) - len(miss), len(lines)))
    for ln in miss:
        print("   %5d  %s" % (ln, src[ln - 1][:150]))
