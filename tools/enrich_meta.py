#!/usr/bin/env python3
"""Fills seeded/<id>/meta.json "needs_to_manifest" from the 'what is needed' section of NOTES.md (idempotent)."""
import glob, json, os, re
HERE = os.path.dirname(os.path.dirname(os.path.abspath(__file__)))
for d in sorted(glob.glob(os.path.join(HERE, "seeded", "*"))):
    mf = os.path.join(d, "meta.json")
    if not os.path.exists(mf):
        continue
    m = json.load(open(mf))
    if m.get("needs_to_manifest", "see NOTES.md") != "see NOTES.md":
        continue
    notes = open(os.path.join(d, "NOTES.md")).read() if os.path.exists(os.path.join(d, "NOTES.md")) else ""
    parts = re.split(r"\n(?=#+ |\*\*[^\n]*\*\*\s*\n)", notes)
    need = None
    for part in parts:
        head = part.strip().split("\n", 1)[0].lower()
        if re.search(r"need|manifest|trigger|required|what it takes", head):
            need = part.strip()
            break
    if need is None:
        mm = re.search(r"(?is)(needs?[^\n]*manifest.*?)(\n\n#|\Z)", notes)
        need = mm.group(1).strip() if mm else None
    m["needs_to_manifest"] = re.sub(r"\s+", " ", need)[:1200] if need else "see NOTES.md"
    if os.path.basename(d)[-1] in "cd":
        m["round"] = 2
    json.dump(m, open(mf, "w"), indent=1)
    print(os.path.basename(d), m["needs_to_manifest"][:80])
