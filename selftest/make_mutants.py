#!/venv/bin/python
"""Regenerates selftest/mutants/*.patch from the table below (exact-string edits applied to a scratch worktree of /repo HEAD)."""
import os
import shutil
import subprocess
import sys
import tempfile

HERE = os.path.dirname(os.path.abspath(__file__))
REPO = "/repo"
S = "sparseSpACE/"

# (property, name, file, old, new)   -- old must occur exactly once
M = [
    ("C01", "stencil_strict_lmin", S + "combiScheme.py", "if grid_levelvec[d] <= self.lmin:", "if grid_levelvec[d] < self.lmin:"),
    ("C01", "admissible_if_in_index_set", S + "combiScheme.py",
     "if tuple(levelvec_copy) not in self.old_index_set and not levelvec_copy[dim] < self.lmin:",
     "if not self.in_index_set(levelvec_copy) and not levelvec_copy[dim] < self.lmin:"),
    ("C01", "refined_not_moved_to_old", S + "combiScheme.py", "        self.old_index_set.add(tuple(levelvec))\n        for d in range(self.dim):",
     "        for d in range(self.dim):"),
    ("C01", "closed_form_binomial", S + "combiScheme.py",
     "coefficient = (-1)**q * math.factorial(self.dim-1)/(math.factorial(q)*math.factorial(self.dim-1-q))",
     "coefficient = (-1)**q * math.factorial(self.dim)/(math.factorial(q)*math.factorial(self.dim-q)) if q < self.dim else 0"),
    ("C02", "boundary_weight_one", S + "Grid.py", "return self.spacing * (0.5 if index + self.lowerBorder == 0 or index + self.lowerBorder == \\",
     "return self.spacing * (1.0 if index + self.lowerBorder == 0 or index + self.lowerBorder == \\"),
    ("C02", "interp_without_boundary_coords", S + "GridOperation.py",
     "            mesh_points_grid = self.grid.coordinate_array_with_boundary\n        return Interpolation.interpolate_points(self.get_component_grid_values(component_grid, mesh_points_grid),",
     "            mesh_points_grid = self.grid.coordinate_array\n        return Interpolation.interpolate_points(self.get_component_grid_values(component_grid, mesh_points_grid),"),
    ("C04", "skip_raise_lmax", S + "spatiallyAdaptiveSingleDimension2.py",
     "                self.raise_lmax(d, update_d)\n                refinement_container_d.update_values(update_d)",
     "                self.lmax[d] += update_d\n                refinement_container_d.update_values(update_d)"),
    ("C04", "max_level_dict_not_reset", S + "spatiallyAdaptiveSingleDimension2.py",
     "        self.subtraction_value_cache = {}\n        self.max_level_dict = {}\n        self.refinement.apply_remove(sort=True)",
     "        self.subtraction_value_cache = {}\n        self.refinement.apply_remove(sort=True)"),
    ("C04", "version6_partial_sum", S + "spatiallyAdaptiveSingleDimension2.py",
     "                    partial_sum_temp = sum([1 for i in range(d+1) if max_coarsenings[i] >= subtraction_value - m])\n                    if partial_sum + partial_sum_temp <= subtraction_value:\n                        m += 1\n                    if partial_sum + partial_sum_temp >= subtraction_value:\n                        break\n                return self.modify_according_to_levelvec(m,d,max_level,levelvec)\n            if self.version == 7:",
     "                    partial_sum_temp = sum([1 for i in range(d) if max_coarsenings[i] >= subtraction_value - m])\n                    if partial_sum + partial_sum_temp <= subtraction_value:\n                        m += 1\n                    if partial_sum + partial_sum_temp >= subtraction_value:\n                        break\n                return self.modify_according_to_levelvec(m,d,max_level,levelvec)\n            if self.version == 7:"),
    ("C04", "extsplit_collision_disabled", S + "RefinementObject.py",
     "            return self.levelvec_dict[levelvec_coarsened] != levelvec", "            return False"),
    ("C04", "modified_basis_weight", S + "Grid.py",
     "                        weights[i] += h_b ** 2 / (2 * h_a)\n                    elif modified_basis and i == 2:",
     "                        weights[i] += h_b / 2\n                    elif modified_basis and i == 2:"),
    ("C05", "removed_objects_not_subtracted", S + "GridOperation.py", "            self.integral -= removed_object.value", "            pass"),
    ("C05", "points_weights_drop_coefficient", S + "StandardCombi.py", "            weights = [w * component_grid.coefficient for w in weights]",
     "            weights = [w * np.sign(component_grid.coefficient) for w in weights]"),
    ("C05", "dimadaptive_cache_key", S + "DimAdaptiveCombi.py",
     "                    integral_dict[tuple(component_grid.levelvector)] = integral\n                else:\n                    integral = integral_dict[tuple(component_grid.levelvector)]",
     "                    integral_dict[tuple(component_grid.levelvector)] = integral\n                    integral_dict[tuple(sorted(component_grid.levelvector))] = integral\n                else:\n                    integral = integral_dict[tuple(sorted(component_grid.levelvector))] if tuple(sorted(component_grid.levelvector)) in integral_dict else integral_dict[tuple(component_grid.levelvector)]"),
    ("C06", "apply_remove_unsorted", S + "spatiallyAdaptiveSingleDimension2.py", "        self.refinement.apply_remove(sort=True)", "        self.refinement.apply_remove(sort=False)"),
    ("C06", "new_level_no_increment", S + "RefinementObject.py", "        newLevel = max(self.levels) + 1\n        # print(\"newLevel\", newLevel)",
     "        newLevel = max(max(self.levels), 1) + (1 if max(self.levels) < 6 else 0)\n        # print(\"newLevel\", newLevel)"),
    ("C06", "selection_strict", S + "RefinementContainer.py", "            if self.refinementObjects[i].benefit >= tolerance:", "            if self.refinementObjects[i].benefit > tolerance:"),
    ("C06", "search_position_not_reset", S + "RefinementContainer.py", "    def refinement_postprocessing(self) -> None:\n        self.searchPosition = 0\n",
     "    def refinement_postprocessing(self) -> None:\n        pass\n"),
    ("C07", "update_keeps_levelvec_dict", S + "RefinementObject.py", "        self.coarseningValue += update_info\n        self.levelvec_dict = {}", "        self.coarseningValue += update_info"),
    ("C07", "contains_strict", S + "RefinementObject.py",
     "    def contains(self, point):\n        contained = True\n        for d in range(self.dim):\n            if point[d] < self.start[d] or point[d] > self.end[d]:\n                contained = False\n                break\n        return contained\n\n    def subset_of_contained_points(self, points):\n        contained_points = []\n        for p in points:\n            if self.contains(p):\n                contained_points.append(p)\n        return contained_points\n\n\n# This is the special class for the RefinementObject defined in the split extend scheme\nclass RefinementObjectCell",
     "    def contains(self, point):\n        contained = True\n        for d in range(self.dim):\n            if point[d] < self.start[d] or point[d] >= self.end[d]:\n                contained = False\n                break\n        return contained\n\n    def subset_of_contained_points(self, points):\n        contained_points = []\n        for p in points:\n            if self.contains(p):\n                contained_points.append(p)\n        return contained_points\n\n\n# This is the special class for the RefinementObject defined in the split extend scheme\nclass RefinementObjectCell"),
    ("C08", "simpson_pattern_shift", S + "Grid.py", "        weights[1:-1:2] *= 4\n        weights[2:-1:2] *= 2", "        weights[1:-1:2] *= 2\n        weights[2:-1:2] *= 4"),
    ("C08", "cc_end_weight", S + "Grid.py", "                weight_factor = 1.0 / ((self.num_points_with_boundary - 2) * self.num_points_with_boundary)",
     "                weight_factor = 1.0 / ((self.num_points_with_boundary - 1) * self.num_points_with_boundary)"),
    ("C08", "leja_weights_unscaled", S + "Grid.py", "        weightsD = np.array(self.compute_1D_quad_weights(coordsD)) * self.length\n        assert len(coordsD) == len(weightsD)",
     "        weightsD = np.array(self.compute_1D_quad_weights(coordsD)) * (self.b - self.a)\n        assert len(coordsD) == len(weightsD)"),
    ("C09", "modified_branch_dropped", S + "Grid.py",
     "                    elif modified_basis and i == len(grid_1D) - 3:\n                        #pass\n                        if i > 1:",
     "                    elif modified_basis and i == len(grid_1D) - 3 and len(grid_1D) < 7:\n                        #pass\n                        if i > 1:"),
    ("C09", "lagrange_knot_window", S + "Grid.py",
     "                        knots = knots[index_x - int((self.p + 1)/2): index_x + int(self.p/2) + 1]\n                    assert len(knots) == self.p + 1\n                # if this knot is part of the grid insert it\n                #print(i, x_basis, grid_1D, grid_levels_1D, l)\n                if self.modified_basis:\n                    spline = LagrangeBasisRestrictedModified",
     "                        knots = knots[index_x - int((self.p + 1)/2) + 1: index_x + int(self.p/2) + 2]\n                    assert len(knots) == self.p + 1\n                # if this knot is part of the grid insert it\n                #print(i, x_basis, grid_1D, grid_levels_1D, l)\n                if self.modified_basis:\n                    spline = LagrangeBasisRestrictedModified"),
    ("C10", "qr_without_transpose", S + "Hierarchization.py", "solve_triangular(R, np.inner(Q.T, pole_values[n, :]), check_finite=False)",
     "solve_triangular(R, np.inner(Q, pole_values[n, :]), check_finite=False)"),
    ("C10", "support_strict", S + "BasisFunctions.py", "        return start <= x <= end", "        return start <= x < end"),
    ("C10", "bspline_denominator", S + "BasisFunctions.py",
     "            result += (self.knots[k + p + 1] - x) / (self.knots[k + p + 1] - self.knots[k + 1]) * self.recursive_eval(x, p-1, k + 1)",
     "            result += (self.knots[k + p + 1] - x) / (self.knots[k + p + 1] - self.knots[k]) * self.recursive_eval(x, p-1, k + 1)"),
    ("C11", "romberg_exponent", S + "Extrapolation.py", "        return self.get_romberg_coefficient(m, j, 2)", "        return self.get_romberg_coefficient(m, j, 1) if m > 3 else self.get_romberg_coefficient(m, j, 2)"),
    ("C11", "balanced_coefficient", S + "Extrapolation.py", "        coefficient = (-1) / (4 ** k - 1)", "        coefficient = (-1) / (4 ** k - 1) if k < 3 else (-1) / (2 ** k - 1)"),
    ("C12", "vectorized_product_peak", S + "Function.py", "        result = np.prod(self.coeffs ** (-2) + (coordinates - self.midPoint) ** (2), axis=-1)",
     "        result = np.prod(self.coeffs ** (2) + (coordinates - self.midPoint) ** (2), axis=-1)"),
    ("C12", "c0_integral_branch", S + "Function.py", "            if end[d] > self.midPoint[d]:\n                if start[d] > self.midPoint[d]:",
     "            if end[d] > self.midPoint[d]:\n                if start[d] >= self.midPoint[d] - 0.05:"),
    ("C13", "max_evaluations_inclusive", S + "spatiallyAdaptiveBase.py", "            if max_evaluations is not None and num_evaluations > max_evaluations:",
     "            if max_evaluations is not None and num_evaluations >= max_evaluations:"),
    ("C13", "tolerance_or", S + "spatiallyAdaptiveBase.py", "            if error <= tol and num_evaluations >= min_evaluations:", "            if error <= tol or (num_evaluations >= min_evaluations and min_evaluations > 1):"),
    ("C13", "relative_error_without_abs", S + "GridOperation.py",
     "            return LA.norm(abs((self.reference_solution - self.integral) / self.reference_solution), norm) / (\n                        len(self.integral) ** (1 / norm))\n\n    #    def area_postprocessing",
     "            return LA.norm(abs((self.reference_solution - self.integral) / abs(self.reference_solution + self.integral) * 2), norm) / (\n                        len(self.integral) ** (1 / norm))\n\n    #    def area_postprocessing"),
    ("C14", "dump_without_function_dict", S + "StandardCombi.py", "            with open(filename, 'wb') as f:\n                dill.dump(self, f)",
     "            with open(filename, 'wb') as f:\n                saved = getattr(getattr(self.operation, 'f', None), 'f_dict', None)\n                if saved is not None:\n                    self.operation.f.f_dict = {}\n                dill.dump(self, f)\n                if saved is not None:\n                    self.operation.f.f_dict = saved"),
    ("C15", "no_renormalisation", S + "Grid.py", "            f = 1.0 / sum(weights[1:-1])\n", "            f = 1.0\n"),
    ("C15", "midpoint_arithmetic", S + "Grid.py", "        cdf_mid = 0.5 * (cdf(a) + cdf(b))\n        mid = ppf(cdf_mid)", "        cdf_mid = 0.5 * (cdf(a) + cdf(b))\n        mid = ppf(cdf_mid) if not (isinf(a) or isinf(b)) else ppf(0.5 * cdf_mid + 0.25 * (cdf(a) + cdf(b)) + 1e-3)"),
    ("C15", "variance_from_expectation", S + "GridOperation.py", "        variance = [mom2[i] - ex * ex for i, ex in enumerate(expectation)]", "        variance = [mom2[i] - ex * abs(ex) for i, ex in enumerate(expectation)]"),
    ("C16", "uniform_offdiagonal", S + "GridOperation.py", "                                res *= 1 / (2 ** (levelvec[k] - 1) * 12)\n\n                        if res == 0:\n                            self.log_util.log_debug(\"-\" * 100)\n                            self.log_util.log_debug(\"Skipping calculation\")\n                            self.log_util.log_debug(\"Gridpoints: {0} {1}\".format(index_list[i], index_list[j]))\n                        else:\n                            R[i, j] = res",
     "                                res *= 1 / (2 ** (levelvec[k] - 1) * 6)\n\n                        if res == 0:\n                            self.log_util.log_debug(\"-\" * 100)\n                            self.log_util.log_debug(\"Skipping calculation\")\n                            self.log_util.log_debug(\"Gridpoints: {0} {1}\".format(index_list[i], index_list[j]))\n                        else:\n                            R[i, j] = res"),
    ("C16", "double_count_at_grid_points", S + "GridOperation.py", "            value2_temp[value_2_temp <= 0] = 0", "            value2_temp[value_2_temp < 0] = 0"),
    ("C16", "normalisation_without_clip", S + "GridOperation.py",
     "        integral = np.inner(alphas.clip(min=0.0), weights) / sum(weights)\n        if integral != 0.0:\n            alphas /= integral",
     "        integral = np.inner(alphas, weights) / sum(weights)\n        if integral != 0.0:\n            alphas /= integral"),
    ("C17", "cache_key_without_distance", S + "GridOperation.py", "            widths.sort()\n            distances.sort()\n            return (widths, distances)",
     "            widths.sort()\n            distances.sort()\n            return (widths, [0.0 for _ in distances])"),
    ("C17", "domain_match_ignores_dimension", S + "GridOperation.py",
     "                a = [sum([point_domains[i][d][0] == old[d][0] and point_domains[i][d][1] == old[d][1] for d in\n                          range(self.dim)]) == self.dim for old in old_point_domains]\n                if True in a:\n                    domain_match.append(a.index(True))\n                else:\n                    domain_match.append(-1)\n            for p in range(len(point_list)):\n                if point_list[p] in old_point_list and point_list[p] and domain_match[p] != -1:\n                    b[p] = old_b[domain_match[p]]\n\n            # calculate all b points that haven't been copied over (the new points)\n            for i in range(len(b)):\n                if b[i] == 0:\n                    # get the data within the domain of the point\n                    domain = self.get_hat_domain(point_list[i], gridPointCoordsAsStripes)",
     "                a = [sum([point_domains[i][d][0] == old[d][0] and point_domains[i][d][1] == old[d][1] for d in\n                          range(self.dim - 1)]) == self.dim - 1 for old in old_point_domains]\n                if True in a:\n                    domain_match.append(a.index(True))\n                else:\n                    domain_match.append(-1)\n            for p in range(len(point_list)):\n                if point_list[p] in old_point_list and point_list[p] and domain_match[p] != -1:\n                    b[p] = old_b[domain_match[p]]\n\n            # calculate all b points that haven't been copied over (the new points)\n            for i in range(len(b)):\n                if b[i] == 0:\n                    # get the data within the domain of the point\n                    domain = self.get_hat_domain(point_list[i], gridPointCoordsAsStripes)"),
    ("C18", "shuffle_labels_not_permuted", S + "DEMachineLearning.py",
     "        self._data = tuple([np.array([[v for v in x[0]] for x in shuffled]), np.array([y[1] for y in shuffled])])",
     "        self._data = tuple([np.array([[v for v in x[0]] for x in shuffled]), np.array([y[1] for y in shuffled]) if len(shuffled) < 40 else self._data[1]])"),
    ("C18", "split_pieces_floor_round", S + "DEMachineLearning.py",
     "        set1 = DataSet(tuple([np.array(self._data[0][(round(self.get_length() * percentage)):]),",
     "        set1 = DataSet(tuple([np.array(self._data[0][(int(self.get_length() * percentage + 0.5)):]),"),
    ("C18", "update_internal_drops_original_min", S + "DEMachineLearning.py",
     "            to_update._original_min = self._original_min.copy()\n            to_update._original_max = self._original_max.copy()",
     "            to_update._original_min = self._original_min.copy() * 0 + self._original_min.min()\n            to_update._original_max = self._original_max.copy()"),
    ("C19", "argmin", S + "DEMachineLearning.py", "        return np.argmax(density_data, axis=1).flatten()",
     "        return (np.argmax(density_data, axis=1) if len(density_data) < 50 else np.argmin(density_data, axis=1)).flatten()"),
    ("C19", "cutoff_wrong", S + "DEMachineLearning.py", "any([(y < 0.0049) for y in x]) or any([(y > 0.9951) for y in x])", "any([(y < 0.0049) for y in x]) or any([(y > 0.951) for y in x])"),
    ("C19", "scale_factor_from_new_data", S + "DEMachineLearning.py",
     "            data_to_check.shift_value(-self._data_range[0], override_scaling=False)\n            data_to_check.scale_factor(self._scale_factor, override_scaling=False)",
     "            data_to_check.shift_value(-self._data_range[0], override_scaling=False)\n            data_to_check.scale_factor(self._scale_factor if data_to_check.get_length() < 30 else 0.99 / (data_to_check.get_max_data() - data_to_check.get_min_data() + 1e-12), override_scaling=False)"),
    ("C20", "one_over_m_dropped", S + "GridOperation.py",
     "        right_side = (1 / len(y)) * A.T.dot(y)\n        alphas, res, rank, s = np.linalg.lstsq(left_side, right_side, rcond=None)",
     "        right_side = A.T.dot(y)\n        alphas, res, rank, s = np.linalg.lstsq(left_side, right_side, rcond=None)"),
    ("C20", "stiffness_diagonal", S + "GridOperation.py",
     "                            if index_im == index_jm:\n                                temp_res *= (2 ** (levelvec[k] + 1))\n                            # basis function do not overlap\n                            elif abs(index_jm - index_im) > 1:\n                                temp_res = 0\n                                break\n                            # basis functions overlap partly\n                            else:\n                                temp_res *= -(2 ** (levelvec[k]))\n\n                        else:\n                            # basis function overlap fully\n                            if index_im == index_jm:\n                                temp_res *= 1 / (2 ** (levelvec[m] - 1) * 3)\n                            # basis function do not overlap\n                            elif abs(index_jm - index_im) > 1:\n                                temp_res = 0\n                                break\n                            # basis functions overlap partly\n                            else:\n                                temp_res *= 1 / (2 ** (levelvec[m] - 1) * 12)\n\n                    res += temp_res\n\n                if res == 0:\n                    self.log_util.log_debug(\"-\" * 100)\n                    self.log_util.log_debug(\"Skipping calculation\")\n                    self.log_util.log_debug(\"Gridpoints: {0} {1}\".format(index_list[i], index_list[j]))\n                else:\n                    C[i, j] = res",
     "                            if index_im == index_jm:\n                                temp_res *= (2 ** (levelvec[k]))\n                            # basis function do not overlap\n                            elif abs(index_jm - index_im) > 1:\n                                temp_res = 0\n                                break\n                            # basis functions overlap partly\n                            else:\n                                temp_res *= -(2 ** (levelvec[k]))\n\n                        else:\n                            # basis function overlap fully\n                            if index_im == index_jm:\n                                temp_res *= 1 / (2 ** (levelvec[m] - 1) * 3)\n                            # basis function do not overlap\n                            elif abs(index_jm - index_im) > 1:\n                                temp_res = 0\n                                break\n                            # basis functions overlap partly\n                            else:\n                                temp_res *= 1 / (2 ** (levelvec[m] - 1) * 12)\n\n                    res += temp_res\n\n                if res == 0:\n                    self.log_util.log_debug(\"-\" * 100)\n                    self.log_util.log_debug(\"Skipping calculation\")\n                    self.log_util.log_debug(\"Gridpoints: {0} {1}\".format(index_list[i], index_list[j]))\n                else:\n                    C[i, j] = res"),
    ("C20", "opticom_missing_normalisation", S + "GridOperation.py",
     "        coefficients, res, rank, s = np.linalg.lstsq(matrix, self.validation_target_values, rcond=None)\n\n        length = np.sum(coefficients)\n\n        for i in range(len(combiObject.scheme)):\n            combiObject.scheme[i].coefficient = coefficients[i] / length",
     "        coefficients, res, rank, s = np.linalg.lstsq(matrix, self.validation_target_values, rcond=None)\n\n        length = np.sum(np.abs(coefficients))\n\n        for i in range(len(combiObject.scheme)):\n            combiObject.scheme[i].coefficient = coefficients[i] / length"),
]


def main():
    outdir = os.path.join(HERE, "mutants")
    shutil.rmtree(outdir, ignore_errors=True)
    os.makedirs(outdir)
    root = tempfile.mkdtemp(prefix="vp_mkmut_")
    wt = os.path.join(root, "repo")
    subprocess.run(["git", "-C", REPO, "worktree", "add", "-q", "--detach", wt, "HEAD"], check=True)
    bad = 0
    try:
        for prop, name, rel, old, new in M:
            p = os.path.join(wt, rel)
            s = open(p).read()
            if s.count(old) != 1:
                print("SKIP %s__%s: pattern occurs %d times in %s" % (prop, name, s.count(old), rel))
                bad += 1
                continue
            open(p, "w").write(s.replace(old, new))
            d = subprocess.run(["git", "-C", wt, "diff"], stdout=subprocess.PIPE).stdout
            open(os.path.join(outdir, "%s__%s.patch" % (prop, name)), "wb").write(d)
            subprocess.run(["git", "-C", wt, "checkout", "--", "."], check=True)
    finally:
        subprocess.run(["git", "-C", REPO, "worktree", "remove", "--force", wt])
        shutil.rmtree(root, ignore_errors=True)
    print("%d mutants written, %d skipped" % (len(M) - bad, bad))


if __name__ == "__main__":
    sys.exit(main())
